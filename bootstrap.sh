#!/bin/bash
# Build the overlay venv /verif/.venv (offline): the repo's own /venv packages + z3-solver + crosshair-tool.
# Idempotent; called by setup_cmd and lazily by every check (vcheck).
set -e
V=/verif/.venv
if [ -x "$V/bin/python" ] && "$V/bin/python" -c "import z3, crosshair, numpy, xarray" 2>/dev/null; then exit 0; fi
exec 9>/verif/.venv.lock; flock 9
if [ -x "$V/bin/python" ] && "$V/bin/python" -c "import z3, crosshair, numpy, xarray" 2>/dev/null; then exit 0; fi
rm -rf "$V"
/venv/bin/python -m venv "$V"
SP=$("$V/bin/python" -c "import sysconfig; print(sysconfig.get_paths()['purelib'])")
echo "import site; site.addsitedir('/venv/lib/python3.12/site-packages')" > "$SP/_repo_venv.pth"
PIP_NO_INDEX=1 "$V/bin/pip" install -q --no-index --find-links /opt/veriftools/wheels z3-solver crosshair-tool >/dev/null 2>&1 || \
  PIP_NO_INDEX=1 "$V/bin/pip" install --no-index --find-links /opt/veriftools/wheels z3-solver crosshair-tool
"$V/bin/python" -c "import z3, crosshair, numpy, xarray; print('overlay venv ready: z3', z3.get_version_string())"
