#!/usr/bin/env python3
"""Markdown table of seeded/RESULTS.json + REVERTS.json (pasted into DESIGN.md §9.6.1)"""
import json, os
V = '/verif'
res = json.load(open(os.path.join(V, 'seeded', 'RESULTS.json')))
print('| seeded change | property | what it changes | result of `vcheck <property> --tier <tier>` on the changed tree | first violated obligation |')
print('|---|---|---|---|---|')
for name in sorted(res):
    r = res[name]
    meta = json.load(open(os.path.join(V, 'seeded', name, 'meta.json')))
    summ = meta.get('summary', '').replace('|', '/').replace('\n', ' ')
    summ = summ[:230] + ('…' if len(summ) > 230 else '')
    fv = (r.get('first_violation') or [''])[0].replace('violation: ', '').replace('|', '/')
    fv = fv.split(':')[0][:150]
    print('| %s | %s | %s | %s (%s tier, exit %s, %ss) | %s |' % (name, r['property'], summ, r['status'], r.get('tier', 'quick'), r.get('check_exit'), r.get('wall_s'), fv))
rv = os.path.join(V, 'seeded', 'REVERTS.json')
if os.path.exists(rv):
    print()
    print('| fix reverted | property | quick check on the tree with the fix reverted | first violated obligation |')
    print('|---|---|---|---|')
    d = json.load(open(rv))
    for c in d:
        r = d[c]
        fv = (r.get('first_violation') or [''])[0].replace('violation: ', '').replace('|', '/')[:160]
        print('| %s | %s | %s (exit %s) | %s |' % (c, r['property'], r['status'], r.get('check_exit'), fv))
