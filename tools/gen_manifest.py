#!/usr/bin/env python3
"""Regenerate /verif/MANIFEST.json from the table below (kept valid at all times)."""
import json, os
TECH = "bounded symbolic execution of the real Python source (import-hook instrumented, regenerated every run) + z3 SMT; counterexamples replayed on the unmodified JIT code"
CHECKS = {
 'C03': dict(cat='other', ref='DESIGN.md §5 C03',
   text="Real WinnerTakesAll.to_disp/argmin_split/argmax_split executed symbolically on float32 cost volumes (bit-precise z3 FP), all values symbolic within the shape bounds (2x2x3 .. 3x4x4, block-straddling 99..201 sizes with a symbolic stripe across the 100-pixel boundary); z3 unsat = property holds for every cost/NaN/tie pattern inside the bound; nothing is claimed outside the listed shapes.",
   note="Assumes costs finite or NaN (documented precondition); trusted: z3 5.1, the symnp numpy model (argmin/argmax/where/mask stores), numpy for shape-only operations, xarray container behaviour (executed for real)."),
}
NA = {}
PENDING = "check not built yet in this session (work in progress; see DESIGN.md build order)"
props = [json.loads(l)['id'] for l in open('/verif/properties.jsonl')]
m = {
 "version": 1,
 "setup_cmd": "./bootstrap.sh",
 "hooks": {"guard": "CNES_PANDORA_VERIF", "enable": "none needed: instrumentation is applied at import time inside the worker processes (AST rewrite of the source read from /repo + NUMBA_DISABLE_JIT=1); the guard name is reserved and unused",
           "baseline_off_cmd": "cd /repo && /venv/bin/python -m pytest -ra -q -p no:cacheprovider --timeout=900 --continue-on-collection-errors",
           "source_commits": [], "add_only": True},
 "engines": [
   {"name": "E1-symnp", "path": "vf/symnp.py vf/instr.py vf/explore.py", "serves_properties": [], "kind_free_text": "z3-backed numpy duck arrays + forking DSE over the instrumented real source"},
   {"name": "E2-crosshair", "path": "vf/crosshair", "serves_properties": [], "kind_free_text": "CrossHair (symbolic execution of pure-Python scalar/dict code with z3)"},
   {"name": "E3-automaton", "path": "vf/harness/e3.py", "serves_properties": [], "kind_free_text": "transition tables -> z3 BMC; real PandoraMachine with EUF-stub step classes"}],
 "checks": [], "not_applicable": [],
 "notes": "All checks: ./vcheck <ID> --tier quick|thorough ; exit 0 ok / 1 VIOLATION (replayed on the real code) / 3 harness error (inconclusive). VF_REPO=<tree> points the checks at another tree (development aid)."}
for p in props:
    if p in CHECKS:
        c = CHECKS[p]
        m["checks"].append({"property_id": p, "quick_cmd": "./vcheck %s --tier quick" % p, "thorough_cmd": "./vcheck %s --tier thorough" % p,
                            "evidence_file": "/verif/evidence/%s.json" % p, "replay_cmd_template": "./vcheck --replay {path}",
                            "engine": c.get('engine', 'E1-symnp'),
                            "level_claimed": {"category": c['cat'], "text": c['text'], "design_ref": c['ref']},
                            "level_note": c['note'], "technique": c.get('tech', TECH)})
    else:
        m["not_applicable"].append({"property_id": p, "reason": NA.get(p, PENDING)})
for e in m["engines"]:
    e["serves_properties"] = [c["property_id"] for c in m["checks"] if c["engine"] == e["name"]]
json.dump(m, open('/verif/MANIFEST.json', 'w'), indent=1)
print(len(m["checks"]), "checks,", len(m["not_applicable"]), "not applicable")
