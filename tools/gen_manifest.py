#!/usr/bin/env python3
"""Regenerate /verif/MANIFEST.json from the table below (kept valid at all times)."""
import json, os
TECH = "bounded symbolic execution of the real Python source (import-hook instrumented, regenerated every run) + z3 SMT; counterexamples replayed on the unmodified JIT code"
CHECKS = {
 'C01': dict(cat='model_checking', ref='DESIGN.md §5 C01', engine='E3-automaton',
   tech="z3 BMC of the live transition tables against the documented automaton with recurrence-diameter unwinding assertion; real PandoraMachine executed on solver-enumerated words with EUF-stub steps, assertions on z3 terms",
   text="Table level: language equivalence of the live _transitions_check table with the documented automaton is decided by z3 over a symbolic word of length |Q|^2+1 and the unwinding assertion shows that bound is complete; check/run tables mirror each other. Execution level (bounded): every accepted word up to length 5 (quick) / 7 (thorough), each step kind at most twice, with suffix variants, filling and several (num_scales, scale_factor), plus the shortest illegal extensions, is pushed through the real check_conf / check_pipeline_section / pandora.run with stub steps: acceptance, MachineError on rejection, state/event reset, order and multiplicity of step effects per scale and side, identity of a second check/run, and histories where another pipeline was checked before on the same machine.",
   note="Step classes are EUF stubs (their parameter validity is C05); words longer than the executed bound are covered by the table-level result only; plugins out of scope. Trusted: z3, the transitions library (executed for real), my encoding of trigger semantics (validated against the library on all 11111 words of length <= 4, 111111 in thorough)."),
 'C05': dict(cat='other', ref='DESIGN.md §5 C05', tech="dynamic symbolic execution of the real check_conf code with typed symbolic Python scalars (z3 Int / Float64) + z3; all paths explored, counterexamples replayed on the unmodified code",
   text="The real check_conf of all 19 built-in step classes and the real check_pipeline_section / PandoraMachine.check_conf are executed with symbolic parameter values (unbounded ints, any float64 incl. NaN/inf) that behave like real ints/floats towards isinstance; json_checker runs for real. Every path is explored and z3 decides: accepted <=> value inside the documented domain (my transcription of the step_by_step docs), supplied values and key positions kept, omitted parameters get the documented defaults, user dictionary not mutated, checking the result again is the identity; each parameter alone, as the wrong numeric type, in pairs, and combined in three pipeline shapes; a finite list of structural variants (wrong Python types, unknown methods, 'NaN'/'inf' strings, band present/absent in left/right image, step != 1) runs concretely.",
   note="json_checker's message formatting is stubbed and its exact-type filter maps the proxies to int/float; bool-for-int is not examined; plugins and steps without built-in method out of scope; pipeline harnesses bound ints to 2^31 and take sigma_space as a multiple of 1/8."),
 'C06': dict(cat='other', ref='DESIGN.md §5 C06',
   text="The real loop_refinement with the real Vfit / Quadratic refinement_method (numba kernels executed from their Python source, numba typing rules modelled) run symbolically on one pixel: D in 3..5 costs (any real |c| <= 4096 or NaN), any validity mask < 4096, winner index enumerated, incoming disparity on a sample or between samples (after a filter); every branch forks and each path is closed by z3 queries: shift <= 0.5/subpix, result equals the documented fit, coefficient never worse than the sample cost, stays inside the interval, bit 3 raised exactly for its causes and no other bit touched (covers repeated refinement via the arbitrary pre-mask), invalid pixels untouched, and totality (no exception, no division by zero, indices in bounds). Thorough adds a bit-precise float32/float64 harness for the stored shift bound.",
   note="Quick tier decides the algebra over exact reals (reals-for-floats assumption: float rounding of the fit is outside it); the FP harness (thorough) bounds cost magnitudes to [2^-20, 2^20] or 0. One pixel at a time: pixel independence of the prange loop is C18's write-set obligation. The sample a valid pixel sits on is assumed to have a computable cost."),
 'C07': dict(cat='other', ref='DESIGN.md §5 C07',
   text="The whole real CrossCheckingAccurate.disparity_checking (with allocate_confidence_map and mask_border) executed symbolically on one symbolic row of left/right disparities and masks (2-3 columns quick, 4 columns and wider intervals thorough), thresholds concrete and symbolic, second call on the same validator object, border offset and pre-existing confidence band variants. Data-dependent selections fork (4^cols paths, all explored); on each path z3 decides flags == statement oracle, never both bits, confidence value, disparities and right map untouched. Exact value domain: disparities are multiples of 1/64 (|d| <= 16, right map also NaN), where every float operation of the code is exact.",
   note="One row at a time (the code processes rows independently in a Python loop); disparities restricted to the exact domain in the quick tier (arbitrary float32 only in the 1-column FP harness of the thorough tier); known finding KF-C07-outside-mismatch is blocked by its input-class predicate and reported, any other violation still raises."),
 'C08': dict(cat='other', ref='DESIGN.md §5 C08', engine='E3-automaton',
   tech="real PandoraMachine callbacks executed with EUF-stub steps and symbolic interval ends; z3 (EUF + LRA) decides equality of right products with the left products of the mirrored run",
   text="Structural symmetry of all step callbacks: for every legal pipeline word (bounded length, solver-enumerated) containing a validation step the real machine is run on (L,R,[a,b]) and on (R,L,[-b,-a]) with z3 Real interval ends and uninterpreted step functions; z3 proves right1 == left2 and left1 == right2 term-wise, right dataset empty without validation, left disparity unchanged by adding cross-checking. Catches swapped/forgotten arguments, wrong right interval, skipped or doubled right branch in any <step>_run.",
   note="Stub contracts (listed in evidence): validation keeps the first map's disparities and reads only the second map's disparities; semantic_segmentation only attaches a layer read by optimization. Value-level symmetry of the numeric kernels is only covered where a value-level harness is listed in the evidence."),
 'C14': dict(cat='other', ref='DESIGN.md §5 C14',
   text="The real interpolated_disparity of both methods (all four numba kernels + find_valid_neighbors, executed from their Python source) on fully symbolic small maps (1x3, 3x1, 2x2 quick; 1x4, 4x1, 2x3, 3x2 thorough): every validity mask that cross-checking can leave and every disparity (exact domain, multiples of 1/4). The kernels fork on the mask classes and every path is explored; a two-stage reference written from the documentation is executed in the same exploration and z3 decides on each path: unflagged pixels bit-identical, filled pixels swap 8->4 / 9->5 and receive exactly the documented value (hence finite, inside the range of valid disparities), pixels with no valid pixel in sight stay flagged and untouched, all indices in bounds, no exception.",
   note="Maps of at most 6 pixels; masks restricted to the C07 postcondition (never both bits 8 and 9, flagged pixels carry no other invalidity bit, bits 4/5 clear on entry); exact value domain for disparities; ties between equal magnitudes in the sgm 'second lowest' rule accept either sign."),
 'C15': dict(cat='other', ref='DESIGN.md §5 C15', engine='E3-automaton',
   tech="real pandora.run / read_multiscale_params / run_prepare / run_multiscale executed with EUF stubs, interval arithmetic symbolic (z3 Real); schedule and interval identities decided by z3",
   text="Schedule: for every legal pipeline word containing multiscale (bounded length) and (num_scales, scale_factor) in {2,3,4}x{2,3}: matching executes once per scale from the coarsest level to the original images, steps after multiscale run once at full resolution, coarsest interval == user/sf^(n-1) and each finer interval == sf * disparity_range(coarser map, user interval of that level) as z3 validity queries over symbolic interval ends, for left and right.",
   note="Pyramid construction (skimage) is a stub that records levels; disparity_range itself is an uninterpreted function at this level (its numerics are a separate harness when listed in evidence)."),
 'C20': dict(cat='other', ref='DESIGN.md §5 C20', tech="dynamic symbolic execution of the real margins code and PandoraMachine.check_conf with typed symbolic scalars + z3 (LIA)",
   text="Real Margins / GlobalMargins / max_margins / descriptors and the margins properties of median, median_for_intervals, bilateral and matching-cost classes executed with symbolic window size, filter size, step, image shape and sigma_space; the real PandoraMachine.check_conf registration executed on three pipeline shapes with symbolic parameters, with and without validation. z3 decides on every path: listed steps and per-step values equal the documented formula, global margins == per-side max(sum of cumulative, each non-cumulative), non-negative, never lowered by adding a step, identical after the right/left second round and after a second check.",
   note="ints bounded (2^20 / 2^31), sigma_space a multiple of 1/8 (exact arithmetic for int(3 sigma + 1)); 'what main stores' is covered by C19's harness only if listed there; optimization margin checked on the class attribute (no built-in method to instantiate)."),
 'C03': dict(cat='other', ref='DESIGN.md §5 C03',
   text="Real WinnerTakesAll.to_disp/argmin_split/argmax_split executed symbolically on float32 cost volumes (bit-precise z3 FP), all values symbolic within the shape bounds (2x2x3 .. 3x4x4, block-straddling 99..201 sizes with a symbolic stripe across the 100-pixel boundary); z3 unsat = property holds for every cost/NaN/tie pattern inside the bound; nothing is claimed outside the listed shapes.",
   note="Assumes costs finite or NaN (documented precondition); trusted: z3 5.1, the symnp numpy model (argmin/argmax/where/mask stores), numpy for shape-only operations, xarray container behaviour (executed for real)."),
}
NA = {}
PENDING = "check not built yet in this session (work in progress; see DESIGN.md build order)"
props = [json.loads(l)['id'] for l in open('/verif/properties.jsonl')]
m = {
 "version": 1,
 "setup_cmd": "./bootstrap.sh",
 "hooks": {"guard": "CNES_PANDORA_VERIF", "enable": "none needed: instrumentation is applied at import time inside the worker processes (AST rewrite of the source read from /repo + NUMBA_DISABLE_JIT=1); the guard name is reserved and unused",
           "baseline_off_cmd": "cd /repo && /venv/bin/python -m pytest -ra -q -p no:cacheprovider --timeout=900 --continue-on-collection-errors",
           "source_commits": [], "add_only": True},
 "engines": [
   {"name": "E1-symnp", "path": "vf/symnp.py vf/instr.py vf/explore.py", "serves_properties": [], "kind_free_text": "z3-backed numpy duck arrays + forking DSE over the instrumented real source"},
   {"name": "E2-crosshair", "path": "vf/crosshair", "serves_properties": [], "kind_free_text": "CrossHair (symbolic execution of pure-Python scalar/dict code with z3)"},
   {"name": "E3-automaton", "path": "vf/harness/e3.py", "serves_properties": [], "kind_free_text": "transition tables -> z3 BMC; real PandoraMachine with EUF-stub step classes"}],
 "checks": [], "not_applicable": [],
 "notes": "All checks: ./vcheck <ID> --tier quick|thorough ; exit 0 ok / 1 VIOLATION (replayed on the real code) / 3 harness error (inconclusive). VF_REPO=<tree> points the checks at another tree (development aid)."}
for p in props:
    if p in CHECKS:
        c = CHECKS[p]
        m["checks"].append({"property_id": p, "quick_cmd": "./vcheck %s --tier quick" % p, "thorough_cmd": "./vcheck %s --tier thorough" % p,
                            "evidence_file": "/verif/evidence/%s.json" % p, "replay_cmd_template": "./vcheck --replay {path}",
                            "engine": c.get('engine', 'E1-symnp'),
                            "level_claimed": {"category": c['cat'], "text": c['text'], "design_ref": c['ref']},
                            "level_note": c['note'], "technique": c.get('tech', TECH)})
    else:
        m["not_applicable"].append({"property_id": p, "reason": NA.get(p, PENDING)})
for e in m["engines"]:
    e["serves_properties"] = [c["property_id"] for c in m["checks"] if c["engine"] == e["name"]]
json.dump(m, open('/verif/MANIFEST.json', 'w'), indent=1)
print(len(m["checks"]), "checks,", len(m["not_applicable"]), "not applicable")
