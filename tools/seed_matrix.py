#!/usr/bin/env python3
"""Run every confirmed seeded change of /verif/seeded against the quick check of its property (scratch copy of /repo/pandora under
/var/tmp, VF_REPO) and record the outcome in /verif/seeded/RESULTS.json.  usage: seed_matrix.py [-j N] [--tier quick] [names...]"""
import json, os, subprocess, sys, tempfile, shutil, time
from concurrent.futures import ThreadPoolExecutor
V = '/verif'


def run(name, tier):
    d = os.path.join(V, 'seeded', name)
    prop = json.load(open(os.path.join(d, 'meta.json')))['property']
    tmp = tempfile.mkdtemp(prefix='pandora-seed-%s.' % name, dir='/var/tmp')
    try:
        shutil.copytree('/repo/pandora', os.path.join(tmp, 'pandora'), ignore=shutil.ignore_patterns('__pycache__'))
        p = subprocess.run(['patch', '-p1', '-s', '-i', os.path.join(d, 'patch.diff')], cwd=tmp, capture_output=True, text=True)
        if p.returncode:
            return name, {'property': prop, 'status': 'patch-does-not-apply', 'detail': (p.stdout + p.stderr)[-300:]}
        t0 = time.time()
        env = dict(os.environ, VF_REPO=tmp, VF_NO_REPLAY_FILES='1')
        p = subprocess.run([os.path.join(V, 'vcheck'), prop, '--tier', tier], env=env, capture_output=True, text=True, timeout=7200)
        out = p.stdout + p.stderr
        viol = [l.strip()[:400] for l in out.splitlines() if l.strip().startswith('violation:')]
        return name, {'property': prop, 'check_exit': p.returncode, 'status': 'caught' if p.returncode == 1 else ('missed' if p.returncode == 0 else 'harness-error'),
                      'first_violation': viol[:1], 'n_violations': len(viol), 'wall_s': round(time.time() - t0),
                      'tail': out.strip().splitlines()[-3:] if p.returncode not in (0, 1) else []}
    finally:
        shutil.rmtree(tmp, ignore_errors=True)


def main():
    a = sys.argv[1:]
    j = 3; tier = 'quick'
    if '-j' in a:
        i = a.index('-j'); j = int(a[i + 1]); del a[i:i + 2]
    if '--tier' in a:
        i = a.index('--tier'); tier = a[i + 1]; del a[i:i + 2]
    names = a or sorted(n for n in os.listdir(os.path.join(V, 'seeded')) if os.path.isfile(os.path.join(V, 'seeded', n, 'patch.diff')))
    resf = os.path.join(V, 'seeded', 'RESULTS.json')
    res = json.load(open(resf)) if os.path.exists(resf) else {}
    head = subprocess.run(['git', '-C', '/repo', 'rev-parse', '--short', 'HEAD'], capture_output=True, text=True).stdout.strip()
    with ThreadPoolExecutor(j) as ex:
        for name, r in ex.map(lambda n: run(n, tier), names):
            r['tier'] = tier; r['repo_head'] = head
            print(name, r['status'], r.get('first_violation', '')[:1], flush=True)
            import fcntl
            with open(resf + '.lock', 'w') as lk:        # several instances may run at once: merge under a lock
                fcntl.flock(lk, fcntl.LOCK_EX)
                res = json.load(open(resf)) if os.path.exists(resf) else {}
                res[name] = r
                json.dump(res, open(resf, 'w'), indent=1, sort_keys=True)


if __name__ == '__main__':
    main()
