#!/usr/bin/env python3
"""Print the prompt given to an independent seeding sub-agent for one property (only the property text + a scratch worktree)."""
import json, sys
pid, wt = sys.argv[1], sys.argv[2]
n = sys.argv[3] if len(sys.argv) > 3 else "2"
p = next(json.loads(l) for l in open('/verif/properties.jsonl') if json.loads(l)['id'] == pid)
print(f"""You are helping to evaluate a verification effort for CNES/Pandora, a modular stereo-matching pipeline in Python/numba. You get ONE semantic property of the software and your own scratch git worktree of the repository at {wt} (work ONLY inside that directory; never touch /repo or /verif, and do not read /verif).

Property {pid}: {p['title']}
Statement: {p['statement']}
Quantified over: {p['quantifier']['text']}
Code it is anchored in: {', '.join(p['anchors']['files'])}

Task: produce {n} DIFFERENT realistic source changes to the Pandora package (files under {wt}/pandora) that each BREAK this property while the code still imports and the existing test suite still passes. Think of the kind of plausible bug a maintainer could introduce in a refactoring or 'optimisation' (an off-by-one in a boundary, a wrong operator, a stale piece of state, a forgotten case, two sites that each look fine alone). We specifically want changes that need something specific to manifest - an unusual input (NaN pattern, tie, boundary size, particular mask layout, negative values), a multi-step sequence of operations (e.g. a repeated step, a second run on the same object), a particular configuration value - NOT ones that ordinary use or the existing tests would expose at once. Keep each change small (a few lines).

For each change i (1..{n}) deliver, in {wt}/out/{pid}_<i>/ :
  * patch.diff   - `git diff` of the change against the worktree HEAD (only files under pandora/), applicable with `git apply`.
  * demo.py      - a small standalone program (run as `cd <tree> && PYTHONPATH=<tree> /venv/bin/python demo.py`) that exits 0 on the ORIGINAL code and exits non-zero (assertion failure) WITH the change, demonstrating the property violation through Pandora's real functions/API. It must not depend on anything outside the repository tree and the installed packages.
  * meta.json    - {{"property": "{pid}", "summary": "...what was changed...", "needs": "...what specific input/sequence/config is needed for it to manifest...", "files": [...], "ran": ["commands you ran"]}}

Rules / practical notes:
  * Python: /venv/bin/python (has numpy, xarray, numba, rasterio, pytest, pytest-xdist...). The package is installed in editable mode pointing at /repo, so ALWAYS run with `cd {wt} && PYTHONPATH={wt} /venv/bin/python ...` and check once that `import pandora; print(pandora.__file__)` points into {wt}.
  * The existing tests that must still pass WITH each change: `cd {wt} && PYTHONPATH={wt} /venv/bin/python -m pytest -q -p no:cacheprovider -x --timeout=900 -n 4 tests --deselect tests/test_notebooks.py --deselect tests/test_pandora.py::TestPandora::test_dataset_image` (the deselected ones fail on the original too; the full run takes ~3-6 min; while iterating run only the relevant test files first, then the full suite once per final change). If a test fails with your change, change the mutation, never the tests.
  * Verify yourself, for each change: (a) demo.py exits 0 on the original tree (`git checkout -- pandora` to get it back, `git apply` your saved patch.diff to re-apply; NEVER use `git stash`: the stash is shared between worktrees and other agents work concurrently), (b) demo.py exits non-zero with the change applied, (c) the test suite passes with the change applied. Report honestly if something could not be verified.
  * Leave the worktree with NO change applied at the end (`git checkout -- pandora`), the deliverables only under {wt}/out/.
  * No network. Do not install anything. Do not run long jobs in parallel with more than 4 processes.

When finished, reply with a short summary per change: what it is, what it needs to manifest, and the verification results (a/b/c).""")
