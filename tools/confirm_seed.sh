#!/bin/bash
# Confirm a seeded change independently: usage confirm_seed.sh <src dir with patch.diff demo.py meta.json> <name e.g. C03_1>
# (a) demo passes on the original, (b) demo fails with the change, (c) full test suite passes with the change.
SRC=$1; NAME=$2
WT=/tmp/confirm/$NAME
mkdir -p /tmp/confirm; git -C /repo worktree remove --force "$WT" 2>/dev/null; rm -rf "$WT"
git -C /repo worktree add -q --detach "$WT" HEAD || exit 2
cd "$WT"
# the demo keeps the place it was written at (<tree>/out/<dir>/demo.py): some demos locate the repository's test data relative to it
DD=out/$(basename "$SRC"); mkdir -p "$DD"; cp "$SRC/demo.py" "$DD/demo.py"
PYTHONPATH=$WT timeout 900 /venv/bin/python "$DD/demo.py" >/tmp/confirm/$NAME.a.log 2>&1; A=$?
git apply "$SRC/patch.diff" || { echo "patch does not apply"; A=applyfail; }
PYTHONPATH=$WT timeout 900 /venv/bin/python "$DD/demo.py" >/tmp/confirm/$NAME.b.log 2>&1; B=$?
PYTHONPATH=$WT timeout 1800 /venv/bin/python -m pytest -q -p no:cacheprovider --timeout=900 -n 4 tests \
  --deselect tests/test_notebooks.py --deselect tests/test_pandora.py::TestPandora::test_dataset_image >/tmp/confirm/$NAME.c.log 2>&1; C=$?
TAIL=$(tail -1 /tmp/confirm/$NAME.c.log)
cd /; git -C /repo worktree remove --force "$WT"
echo "$NAME demo_on_original_exit=$A demo_with_change_exit=$B tests_exit=$C ($TAIL)"
if [ "$A" = "0" ] && [ "$B" != "0" ] && [ "$C" = "0" ]; then
  mkdir -p /verif/seeded/$NAME; cp "$SRC/patch.diff" "$SRC/demo.py" /verif/seeded/$NAME/
  python3 - "$SRC/meta.json" "/verif/seeded/$NAME/meta.json" "$A" "$B" "$C" "$TAIL" <<'PY'
import json, sys
m = json.load(open(sys.argv[1]))
m['confirmed'] = {'demo_on_original_exit': int(sys.argv[3]), 'demo_with_change_exit': int(sys.argv[4]), 'tests_with_change_exit': int(sys.argv[5]),
                  'tests_summary': sys.argv[6], 'how': 'tools/confirm_seed.sh in a scratch worktree of /repo HEAD (removed afterwards)'}
json.dump(m, open(sys.argv[2], 'w'), indent=1)
PY
  echo "$NAME KEPT"
else
  echo "$NAME REJECTED"
fi
