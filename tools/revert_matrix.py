#!/usr/bin/env python3
"""For every 'fixed:' record of known_findings.json: revert that fix commit on a scratch copy of /repo (under /var/tmp) and run the
quick check of the property: it must report the violation again (a fixed entry suppresses nothing).  Results -> seeded/REVERTS.json"""
import json, os, re, subprocess, sys, tempfile, shutil, time
from concurrent.futures import ThreadPoolExecutor
V = '/verif'


def run(rec):
    m = re.match(r'fixed: property=(C\d+) ([0-9a-f]{7,})', rec)
    prop, commit = m.group(1), m.group(2)
    tmp = tempfile.mkdtemp(prefix='pandora-revert-%s.' % commit, dir='/var/tmp')
    try:
        shutil.copytree('/repo/pandora', os.path.join(tmp, 'pandora'), ignore=shutil.ignore_patterns('__pycache__'))
        diff = subprocess.run(['git', '-C', '/repo', 'show', '--format=', commit, '--', 'pandora'], capture_output=True, text=True).stdout
        p = subprocess.run(['patch', '-p1', '-R', '-s'], cwd=tmp, input=diff, capture_output=True, text=True)
        how = 'reverse patch'
        if p.returncode:
            # a later fix touched the same lines: fall back to the versions of the touched files just before this fix (which also drops the
            # later fixes to those files -- the violation of this fix must still be reported)
            shutil.rmtree(os.path.join(tmp, 'pandora')); shutil.copytree('/repo/pandora', os.path.join(tmp, 'pandora'), ignore=shutil.ignore_patterns('__pycache__'))
            files = subprocess.run(['git', '-C', '/repo', 'show', '--format=', '--name-only', commit, '--', 'pandora'], capture_output=True, text=True).stdout.split()
            for f in files:
                old = subprocess.run(['git', '-C', '/repo', 'show', '%s^:%s' % (commit, f)], capture_output=True, text=True)
                if old.returncode:
                    return commit, {'property': prop, 'status': 'revert-does-not-apply', 'detail': old.stderr[-300:]}
                open(os.path.join(tmp, f), 'w').write(old.stdout)
            how = 'files as they were before the fix (%s)' % ', '.join(files)
        t0 = time.time()
        p = subprocess.run([os.path.join(V, 'vcheck'), prop, '--tier', 'quick'], env=dict(os.environ, VF_REPO=tmp), capture_output=True, text=True, timeout=7200)
        out = p.stdout + p.stderr
        viol = [l.strip()[:300] for l in out.splitlines() if l.strip().startswith('violation:')]
        return commit, {'property': prop, 'check_exit': p.returncode, 'status': 'reported-again' if p.returncode == 1 else ('NOT-reported' if p.returncode == 0 else 'harness-error'),
                        'first_violation': viol[:1], 'wall_s': round(time.time() - t0), 'reverted_by': how, 'tail': out.strip().splitlines()[-3:] if p.returncode not in (0, 1) else []}
    finally:
        shutil.rmtree(tmp, ignore_errors=True)


def main():
    recs = json.load(open(os.path.join(V, 'known_findings.json')))['fixed']
    only = sys.argv[1:]
    recs = [r for r in recs if not only or any(o in r for o in only)]
    resf = os.path.join(V, 'seeded', 'REVERTS.json')
    res = json.load(open(resf)) if os.path.exists(resf) else {}
    with ThreadPoolExecutor(3) as ex:
        for commit, r in ex.map(run, recs):
            res[commit] = r
            print(commit, r['property'], r['status'], r.get('first_violation'), flush=True)
            json.dump(res, open(resf, 'w'), indent=1, sort_keys=True)


if __name__ == '__main__':
    main()
