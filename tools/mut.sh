#!/bin/bash
# development aid: run a check against a scratch copy of /repo with an edit applied.
# usage: mut.sh <ID> <tier> (<patch.diff> | -e 'sed-expr' file ...)
ID=$1; TIER=$2; shift 2
D=$(mktemp -d /var/tmp/pandora-mut.XXXXXX)
cp -r /repo/pandora "$D/pandora"; find "$D" -name __pycache__ -prune -exec rm -rf {} +
if [ "$1" = "-e" ]; then
  while [ "$1" = "-e" ]; do sed -i "$2" "$D/$3"; shift 3; done
else
  (cd "$D" && patch -p1 -s < "$1") || { echo "patch failed"; rm -rf "$D"; exit 2; }
  shift
fi
diff -r -q /repo/pandora "$D/pandora" | grep -v pycache
VF_REPO=$D /verif/vcheck "$ID" --tier "$TIER" "$@"; rc=$?
rm -rf "$D"; echo "exit=$rc"; exit $rc
