"""Driver-side helpers: parallel worker pool with hard caps, replay, known findings, evidence, verdict."""
import json, os, sys, time, subprocess, tempfile, hashlib, threading, shutil
from concurrent.futures import ThreadPoolExecutor, as_completed

VERIF = '/verif'
REPO = os.environ.get('VF_REPO', '/repo')
PY = os.path.join(VERIF, '.venv/bin/python')
SCRATCH_ROOT = '/var/tmp'
NCPU = int(os.environ.get('VF_JOBS', '16'))


def load_known():
    p = os.path.join(VERIF, 'known_findings.json')
    if not os.path.isfile(p):
        return {'findings': [], 'fixed': []}
    return json.load(open(p))


def open_known_ids(prop):
    return [f['id'] for f in load_known().get('findings', []) if f['property'] == prop]


class Ctx:
    def __init__(self, prop, tier, seed):
        self.prop = prop; self.tier = tier; self.seed = seed
        self.t0 = time.time()
        self.level = 'other'
        self.cov = {'evaluations': 0, 'distinct_nontrivial': 0, 'obligations': 0, 'discharged': 0, 'inconclusive': 0,
                    'queries': 0, 'solver_s': 0.0, 'paths': 0, 'samples': [], 'functions_encoded': {}, 'bounds': {},
                    'stubs': [], 'harnesses': {}, 'vacuity_witnesses': {}, 'known_findings_seen': [], 'inconclusive_list': []}
        self.assumptions = []
        self.violations = []      # (description, replay path)
        self.known_seen = []
        self.harness_errors = []
        self.known_ids = open_known_ids(prop)
        self.known_desc = {f['id']: f for f in load_known().get('findings', []) if f['property'] == prop}
        self.scratch = tempfile.mkdtemp(prefix='pandora-verif.%s.' % prop, dir=SCRATCH_ROOT)
        self._lock = threading.Lock()

    quick = property(lambda s: s.tier == 'quick')

    # ---------------------------------------------------------------- workers
    def run_job(self, job, timeout):
        jid = hashlib.sha1(json.dumps(job, sort_keys=True, default=str).encode()).hexdigest()[:12]
        jf = os.path.join(self.scratch, 'job-%s.json' % jid); rf = os.path.join(self.scratch, 'res-%s.json' % jid)
        json.dump(job, open(jf, 'w'), default=str)
        env = dict(os.environ)
        env['PYTHONPATH'] = VERIF
        env['VF_REPO'] = REPO
        env.pop('CNES_PANDORA_VERIF', None)
        if job.get('mode') == 'sym' or job.get('nojit'):
            env['NUMBA_DISABLE_JIT'] = '1'
        else:
            env.pop('NUMBA_DISABLE_JIT', None)
        env.setdefault('NUMBA_NUM_THREADS', '2')
        env['OMP_NUM_THREADS'] = '1'; env['OPENBLAS_NUM_THREADS'] = '1'
        t = time.time()
        try:
            p = subprocess.Popen([PY, '-m', 'vf.worker', jf, rf], env=env, cwd=VERIF, stdout=subprocess.PIPE,
                                 stderr=subprocess.STDOUT, start_new_session=True)
            try:
                outp, _ = p.communicate(timeout=timeout)
            except subprocess.TimeoutExpired:
                try:
                    os.killpg(p.pid, 9)
                except ProcessLookupError:
                    pass
                p.wait()
                return {'error': 'worker hard timeout %ss' % timeout, 'timeout': True, 'job': job, 'wall_s': time.time() - t}
            if os.path.isfile(rf):
                r = json.load(open(rf))
            else:
                r = {'error': 'worker died (rc=%s): %s' % (p.returncode, outp.decode(errors='replace')[-600:])}
        finally:
            for f in (jf, rf):
                try:
                    os.unlink(f)
                except OSError:
                    pass
        r['job'] = job; r['wall_s'] = round(time.time() - t, 2)
        return r

    def run_jobs(self, jobs, timeout, workers=None):
        """jobs run in parallel (subprocess each); yields results as they complete"""
        workers = workers or NCPU
        res = []
        with ThreadPoolExecutor(max_workers=workers) as ex:
            futs = [ex.submit(self.run_job, j, timeout) for j in jobs]
            for f in as_completed(futs):
                res.append(f.result())
        return res

    # ---------------------------------------------------------------- results
    _wit_family = None

    def absorb(self, r, label=None):
        """fold one symbolic-harness result into the evidence counters; returns list of counterexamples to replay"""
        if self._wit_family is None:
            self._wit_family = {}
        c = self.cov
        label = label or '%s.%s%s' % (r['job']['mod'].split('.')[-1], r['job']['fn'], _short(r['job'].get('args', {})))
        h = {'wall_s': r.get('wall_s')}
        if r.get('error'):
            h['error'] = r['error']; h['where'] = r.get('where', [])[-3:]
            self.harness_errors.append('%s: %s' % (label, r['error']))
            c['harnesses'][label] = h
            return []
        for k in ('paths', 'obligations', 'discharged', 'queries'):
            c[k] += int(r.get(k, 0)); h[k] = r.get(k, 0)
        c['evaluations'] += int(r.get('paths', 0))
        c['distinct_nontrivial'] += int(r.get('nontrivial_paths', r.get('paths', 0)))
        c['solver_s'] = round(c['solver_s'] + float(r.get('solver_s', 0)), 2)
        inc = r.get('inconclusive', [])
        c['inconclusive'] += len(inc); h['inconclusive'] = len(inc)
        for i in inc[:5]:
            c['inconclusive_list'].append('%s: %s' % (label, i))
        c['functions_encoded'].update(r.get('functions', {}))
        if r.get('bounds'):
            c['bounds'][label] = r['bounds']
        for s in r.get('stubs', []):
            if s not in c['stubs']:
                c['stubs'].append(s)
        for a in r.get('assumptions', []):
            if a not in self.assumptions:
                self.assumptions.append(a)
        if r.get('samples') and len(c['samples']) < 12:
            c['samples'].extend(r['samples'][:2])
        if r.get('witness') is not None:
            c['vacuity_witnesses'][label] = r['witness']
            bad = [k for k, v in r['witness'].items() if v == 'unsat']
            undecided = [k for k, v in r['witness'].items() if v not in ('sat', 'unsat')]
            if undecided:
                # the solver could not decide the witness within the cap: reported as inconclusive (only `unsat` means a vacuous harness)
                c['inconclusive'] += len(undecided)
                c['inconclusive_list'] += ['%s: vacuity witness %s undecided (%s)' % (label, k, r['witness'][k]) for k in undecided]
            if bad and r['job'].get('args', {}).get('prefix'):
                # a prefix-split job explores one slice of the decision tree: a witness has to be reachable in SOME slice of the family
                fam = (r['job']['mod'], r['job']['fn'], json.dumps({k: v for k, v in r['job']['args'].items() if k != 'prefix'}, sort_keys=True, default=str))
                self._wit_family.setdefault(fam, {'label': label, 'sat': set(), 'bad': set()})
                self._wit_family[fam]['sat'] |= {k for k, v in r['witness'].items() if v == 'sat'}
                self._wit_family[fam]['bad'] |= set(bad)
            elif bad:
                self.harness_errors.append('%s: vacuity witness not sat: %s' % (label, bad))
            elif r['job'].get('args', {}).get('prefix') is not None:
                fam = (r['job']['mod'], r['job']['fn'], json.dumps({k: v for k, v in r['job']['args'].items() if k != 'prefix'}, sort_keys=True, default=str))
                self._wit_family.setdefault(fam, {'label': label, 'sat': set(), 'bad': set()})
                self._wit_family[fam]['sat'] |= set(r['witness'])
        if r.get('truncated'):
            h['truncated'] = True
            c['inconclusive'] += 1
            c['inconclusive_list'].append('%s: path exploration truncated (%s pending)' % (label, r.get('pending')))
        c['harnesses'][label] = h
        return [dict(x, harness=label, job=r['job']) for x in r.get('cex', [])]

    def replay_all(self, cexs, replay_mod, replay_fn, timeout=600):
        """replay counterexamples on the real (uninstrumented, JIT) code; classify"""
        if not cexs:
            return
        jobs = [{'mod': replay_mod, 'fn': replay_fn, 'mode': 'plain', 'nojit': replay_mod.split('.')[-1] in ('e3jobs', 'c05', 'c16', 'c17', 'c19'), 'args': {'cex': cx}} for cx in cexs]
        for r in self.run_jobs(jobs, timeout, workers=min(8, NCPU)):
            cx = r['job']['args']['cex']
            name = '%s/%s' % (cx.get('harness'), cx.get('name'))
            if r.get('error'):
                self.harness_errors.append('replay of %s failed: %s' % (name, r['error']))
                continue
            if not r.get('violates'):
                self.harness_errors.append('counterexample for %s does NOT reproduce on the real code (%s): encoding suspect'
                                           % (name, r.get('detail', '')[:200]))
                continue
            kid = cx.get('known') or r.get('known')
            if kid and kid in self.known_ids:
                if kid not in self.known_seen:
                    self.known_seen.append(kid)
                    self.cov['known_findings_seen'].append({'id': kid, 'harness': name, 'detail': r.get('detail', '')[:300]})
                continue
            path = self.write_replay(cx, r)
            self.violations.append(('%s: %s' % (name, r.get('detail', '')[:300]), path))

    def write_replay(self, cx, r=None):
        # replays of runs against a scratch copy (seeded changes, VF_REPO) do not belong to /verif
        rdir = os.path.join(VERIF, 'replays') if os.environ.get('VF_REPO', '/repo') == '/repo' else os.environ.get('VF_REPLAY_DIR', '/var/tmp/vf-replays')
        os.makedirs(rdir, exist_ok=True)
        body = {'property': self.prop, 'cex': cx, 'replay_result': r and {k: v for k, v in r.items() if k != 'job'}}
        h = hashlib.sha1(json.dumps(cx, sort_keys=True, default=str).encode()).hexdigest()[:10]
        path = os.path.join(rdir, '%s-%s.json' % (self.prop, h))
        json.dump(body, open(path, 'w'), indent=1, default=str)
        return path

    def direct_violation(self, desc, payload):
        """violation established by the driver itself on the real code (e.g. E3 runs of the real machine)"""
        cx = {'name': desc, 'payload': payload}
        path = self.write_replay(cx)
        self.violations.append((desc, path))

    def known_hit(self, kid, detail):
        if kid not in self.known_seen:
            self.known_seen.append(kid)
            self.cov['known_findings_seen'].append({'id': kid, 'detail': detail[:300]})

    # ---------------------------------------------------------------- verdict
    def finish(self):
        c = self.cov
        for fam, w in (self._wit_family or {}).items():
            never = sorted(w['bad'] - w['sat'])
            if never:
                self.harness_errors.append('%s (all prefix slices): vacuity witness not sat in any slice: %s' % (w['label'], never))
        wall = round(time.time() - self.t0, 2)
        if not c['samples']:
            c['samples'] = ['(no obligation samples recorded)']
        c['explanation'] = c.get('explanation') or (
            'bounded symbolic execution of the real Python source (regenerated from the working tree) + SMT; '
            'every count below was measured on this run')
        ev = {'property_id': self.prop, 'tier': self.tier, 'seed': self.seed, 'level': self.level, 'coverage': c,
              'assumptions': self.assumptions, 'wall_s': wall, 'violations': len(self.violations),
              'harness_errors': self.harness_errors[:20], 'repo': REPO}
        os.makedirs(os.path.join(VERIF, 'evidence'), exist_ok=True)
        if REPO == '/repo':
            json.dump(ev, open(os.path.join(VERIF, 'evidence', '%s.json' % self.prop), 'w'), indent=1, default=str)
        else:
            json.dump(ev, open(os.path.join(self.scratch, 'evidence.json'), 'w'), indent=1, default=str)
        shutil.rmtree(self.scratch, ignore_errors=True)
        for kid in self.known_seen:
            d = self.known_desc.get(kid, {})
            print('KNOWN-FINDING: property=%s %s (%s)' % (self.prop, d.get('what', kid), kid))
        print('%s tier=%s: paths=%d obligations=%d discharged=%d inconclusive=%d queries=%d solver_s=%.1f wall_s=%.1f'
              % (self.prop, self.tier, c['paths'], c['obligations'], c['discharged'], c['inconclusive'], c['queries'],
                 c['solver_s'], wall))
        for i in c['inconclusive_list'][:10]:
            print('  inconclusive: %s' % i)
        if self.violations:
            for desc, path in self.violations:
                print('  violation: %s' % desc)
                print('VIOLATION property=%s replay=%s' % (self.prop, path))
            return 1
        if self.harness_errors:
            for e in self.harness_errors[:20]:
                print('INCONCLUSIVE (harness error): %s' % e)
            return 3
        return 0


def _short(args):
    if not args:
        return ''
    return '(' + ','.join('%s=%s' % (k, v) for k, v in sorted(args.items()) if k not in ('block', 'cap')) + ')'
