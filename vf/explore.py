"""Dynamic symbolic execution driver: forking explorer, hard-capped (forked) solver calls, model extraction.

Used by the E1 engine (vf.symnp).  One global explorer EX per worker process.
"""
import os, pickle, select, signal, struct, time
import z3


class Infeasible(BaseException):
    """current path is infeasible (BaseException so that `except Exception` in code under test does not swallow it)"""


class PathLimit(BaseException):
    pass


class Unsupported(Exception):
    """construct not modelled by the engine: harness must report inconclusive, never success"""


def _has_heavy_fp(t, _cache={}):
    """does the term contain fp.div / fp.mul / fp.sqrt / fp.fma (bit-blasting is expensive, soft timeouts are not honoured)"""
    seen = set(); stack = [t]
    heavy = (z3.Z3_OP_FPA_DIV, z3.Z3_OP_FPA_MUL, z3.Z3_OP_FPA_SQRT, z3.Z3_OP_FPA_FMA, z3.Z3_OP_FPA_REM)
    while stack:
        x = stack.pop()
        i = x.get_id()
        if i in seen:
            continue
        seen.add(i)
        if z3.is_app(x):
            if x.decl().kind() in heavy:
                return True
            stack.extend(x.children())
    return False


def raw_value(model, term):
    """python value of a term under a model: bool / int (bit-vectors and ints) / ('fp', bits, ebits, sbits) / Fraction-like str"""
    v = model.eval(term, model_completion=True)
    if z3.is_bool(v):
        return bool(z3.is_true(v))
    if z3.is_bv(v):
        return v.as_long()
    if z3.is_int(v):
        return v.as_long()
    if z3.is_fp(v):
        # NaN has no unique IEEE bit pattern in z3 (fp.to_ieee_bv of NaN is unspecified): test it first
        if z3.is_true(model.eval(z3.fpIsNaN(term), model_completion=True)):
            return ('nan', term.sort().ebits(), term.sort().sbits())
        b = model.eval(z3.fpToIEEEBV(v), model_completion=True)
        if not z3.is_bv_value(b):
            b = z3.simplify(b)
        return ('fp', b.as_long(), term.sort().ebits(), term.sort().sbits())
    if z3.is_real(v):
        if z3.is_rational_value(v):
            return ('q', v.numerator_as_long(), v.denominator_as_long())
        return ('q?', str(v))
    return str(v)


def fp_from_raw(r):
    import numpy as np
    if r[0] == 'nan':
        return float('nan')
    _, bits, eb, sb = r
    if eb == 8:
        return float(np.frombuffer(struct.pack('<I', bits), dtype=np.float32)[0])
    return float(np.frombuffer(struct.pack('<Q', bits), dtype=np.float64)[0])


class Explorer:
    def __init__(self):
        self.reset_all()

    def reset_all(self):
        self.work = [[]]
        self.nbranch = 0; self.nsolve = 0; self.solver_s = 0.0; self.nforkq = 0
        self.optimistic = False        # never ask feasibility at forks
        self.max_paths = 100000
        self.branch_timeout_ms = 5000
        self.inputs = {}               # name -> list of (index, term-or-(tag,val)) registered by fresh_*()
        self.real_inputs = []
        self.reset_path([])

    def reset_path(self, forced):
        self.pc = []; self.trace = []; self.forced = list(forced); self.decided = {}; self.model = None
        self.obligations = []          # (name, z3 bool) collected on this path (in-bounds etc.)
        self.notes = []
        self.inputs = {}
        self.real_inputs = []
        self.pc_heavy = False
        self._solver = None

    # -- assumptions -----------------------------------------------------------------
    def assume(self, cond):
        if isinstance(cond, bool):
            if not cond:
                raise Infeasible()
            return
        self.pc.append(cond)
        if not self.pc_heavy and _has_heavy_fp(cond):
            self.pc_heavy = True
        self.model = None
        self._solver = None

    # -- feasibility -----------------------------------------------------------------
    def _inc_solver(self):
        if self._solver is None:
            s = z3.Solver(); s.set('timeout', self.branch_timeout_ms)
            s.add(*self.pc)
            self._solver = (s, len(self.pc))
        s, n = self._solver
        if n < len(self.pc):
            s.add(*self.pc[n:]); self._solver = (s, len(self.pc))
        return s

    def feasible(self, extra):
        self.nsolve += 1
        t = time.time()
        s = self._inc_solver()
        s.push(); s.add(extra)
        r = str(s.check())
        if r == 'sat':
            self.model = s.model()
        s.pop()
        self.solver_s += time.time() - t
        return r != 'unsat'       # unknown => treat as feasible (sound: final obligation carries the pc)

    def branch(self, cond):
        c = z3.simplify(cond)
        if z3.is_true(c):
            return True
        if z3.is_false(c):
            return False
        key = c.get_id()
        if key in self.decided:
            return self.decided[key]
        i = len(self.trace)
        if i < len(self.forced):
            d = self.forced[i]
        else:
            heavy = self.pc_heavy or _has_heavy_fp(c)
            if self.optimistic or heavy:
                self.work.append(self.trace + [False]); d = True
            else:
                side = None
                if self.model is not None:
                    v = self.model.eval(c, model_completion=True)
                    side = True if z3.is_true(v) else (False if z3.is_false(v) else None)
                t_ok = True if side is True else self.feasible(c)
                f_ok = True if side is False else self.feasible(z3.Not(c))
                if t_ok and f_ok:
                    self.work.append(self.trace + [False]); d = True
                elif t_ok:
                    d = True
                elif f_ok:
                    d = False
                else:
                    raise Infeasible()
            self.nbranch += 1
        self.trace.append(d)
        self.pc.append(c if d else z3.Not(c))
        if not self.pc_heavy and _has_heavy_fp(c):
            self.pc_heavy = True
        self.decided[key] = d
        return d

    def unique_value(self, term):
        """concrete value of an Int term when the path condition forces a single one (sound concretisation), else None"""
        s = self._inc_solver()
        s.push()
        try:
            if str(s.check()) != 'sat':
                return None
            v = s.model().eval(term, model_completion=True)
            if not z3.is_int_value(v):
                return None
            s.add(term != v)
            if str(s.check()) == 'unsat':
                return v.as_long()
            return None
        finally:
            s.pop()

    # -- final queries ---------------------------------------------------------------
    def solve(self, formulas, cap_s=60, want_model=True, extra_terms=None, eval_named=None):
        """check sat of pc + formulas in a forked child under a hard wall-clock cap.
        returns ('unsat'|'sat'|'unknown', modeldict or None, seconds)"""
        self.nforkq += 1
        t0 = time.time()
        rfd, wfd = os.pipe()
        pid = os.fork()
        if pid == 0:
            os.close(rfd)
            try:
                s = z3.Solver()
                s.set('timeout', int(cap_s * 1000))
                s.add(*self.pc); s.add(*formulas)
                r = str(s.check())
                out = {'r': r}
                if r == 'sat' and want_model:
                    m = s.model(); vals = {}
                    for name, items in self.inputs.items():
                        vals[name] = [(idx, _raw_entry(m, t)) for idx, t in items]
                    out['m'] = vals
                    if extra_terms:
                        out['x'] = {k: raw_value(m, t) for k, t in extra_terms.items()}
                    if eval_named:
                        out['false'] = [n for n, p in eval_named if not z3.is_true(m.eval(p, model_completion=True))]
                elif r == 'unknown':
                    out['why'] = s.reason_unknown()
                os.write(wfd, pickle.dumps(out))
            except BaseException as e:       # noqa
                try:
                    os.write(wfd, pickle.dumps({'r': 'unknown', 'why': 'child exception %r' % (e,)}))
                except BaseException:
                    pass
            finally:
                os._exit(0)
        os.close(wfd)
        buf = b''
        deadline = t0 + cap_s + 5
        while True:
            left = deadline - time.time()
            if left <= 0:
                break
            rl, _, _ = select.select([rfd], [], [], min(left, 1.0))
            if rl:
                chunk = os.read(rfd, 1 << 20)
                if not chunk:
                    break
                buf += chunk
        os.close(rfd)
        try:
            os.kill(pid, signal.SIGKILL)
        except ProcessLookupError:
            pass
        os.waitpid(pid, 0)
        dt = time.time() - t0
        self.solver_s += dt
        if not buf:
            return 'unknown', {'why': 'hard cap %ss' % cap_s}, dt
        out = pickle.loads(buf)
        return out['r'], out, dt


def _raw_entry(m, t):
    if isinstance(t, tuple):      # exact-domain (tag, val[, scale])
        return ('x', raw_value(m, t[0]), raw_value(m, t[1]), t[2] if len(t) > 2 else 1)
    return raw_value(m, t)


EX = Explorer()


def explore(harness, max_paths=None, time_cap_s=None, prefixes=None, on_path=None):
    """Run harness() over all paths (depth-first re-execution).  harness returns an arbitrary per-path result
    after having discharged its obligations itself (via EX.solve) -- or raises.  Returns list of per-path results."""
    EX.work = [list(p) for p in (prefixes or [[]])]
    results = []; n = 0; t0 = time.time()
    truncated = False
    while EX.work:
        forced = EX.work.pop()
        EX.reset_path(forced)
        try:
            r = harness()
        except Infeasible:
            continue
        n += 1
        results.append(r)
        if on_path:
            on_path(r)
        if max_paths and n >= max_paths and EX.work:
            truncated = True; break
        if time_cap_s and time.time() - t0 > time_cap_s and EX.work:
            truncated = True; break
    return results, {'paths': n, 'truncated': truncated, 'pending': len(EX.work), 'branches': EX.nbranch,
                     'feas_queries': EX.nsolve, 'fork_queries': EX.nforkq, 'solver_s': round(EX.solver_s, 3),
                     'wall_s': round(time.time() - t0, 3)}
