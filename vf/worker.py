"""Worker process entry: python -m vf.worker <job.json> <result.json>
job = {mod, fn, args, mode}; mode 'sym' installs the import hook (NUMBA_DISABLE_JIT=1 set by the parent),
mode 'plain' imports the unmodified package from the tree under test (JIT on)."""
import sys, json, os, time, traceback, warnings, logging


def main():
    job = json.load(open(sys.argv[1]))
    warnings.filterwarnings('ignore'); logging.disable(logging.CRITICAL)
    t0 = time.time()
    out = {}
    try:
        if job.get('mode') == 'sym':
            from vf import instr
            instr.install()
        elif job.get('mode') == 'plain':
            from vf import instr_plain
            instr_plain.install()
        import importlib
        m = importlib.import_module(job['mod'])
        out = getattr(m, job['fn'])(**job.get('args', {})) or {}
    except BaseException as e:       # noqa: report everything, including engine aborts
        tb = traceback.extract_tb(e.__traceback__)
        out = {'error': '%s: %s' % (type(e).__name__, str(e)[:500]),
               'where': ['%s:%s %s' % (f.filename.split('/')[-1], f.lineno, (f.line or '')[:80]) for f in tb[-8:]]}
    out['worker_wall_s'] = round(time.time() - t0, 2)
    tmp = sys.argv[2] + '.tmp'
    json.dump(out, open(tmp, 'w'), default=str)
    os.replace(tmp, sys.argv[2])


if __name__ == '__main__':
    main()
