"""Replay workers: import the *unmodified* pandora package from the tree under test (VF_REPO, default /repo), numba JIT on."""
import os, sys, importlib.abc, importlib.util

REPO = os.environ.get('VF_REPO', '/repo')


class Finder(importlib.abc.MetaPathFinder):
    def find_spec(self, name, path, target=None):
        if not (name == 'pandora' or name.startswith('pandora.')):
            return None
        rel = name.replace('.', '/')
        pkg = os.path.join(REPO, rel, '__init__.py'); mod = os.path.join(REPO, rel + '.py')
        if os.path.isfile(pkg):
            return importlib.util.spec_from_file_location(name, pkg, submodule_search_locations=[os.path.dirname(pkg)])
        if os.path.isfile(mod):
            return importlib.util.spec_from_file_location(name, mod)
        return None


def install():
    if not any(isinstance(f, Finder) for f in sys.meta_path):
        sys.meta_path.insert(0, Finder())
