"""E1 engine: z3-backed symbolic scalars and numpy duck arrays.

Value kinds
  f4 / f8      z3 Float32 / Float64, round-nearest-even (bit precise)
  iN / uN      bit-vectors of the dtype's width (wrap-around like numpy / numba)
  b            z3 Bool
  x4           exact tagged value (tag in {0 finite, 1 NaN, 2 +inf, 3 -inf}, val Real) that masquerades as float32;
               faithful to float32 as long as every finite value is a dyadic rational within the float32 mantissa --
               harnesses that use it state (and bound) the value range that guarantees it.
Concrete operands are computed by numpy itself.
"""
import operator, itertools
import numpy as np
import z3
from .explore import EX, Unsupported, Infeasible

RNE = z3.RNE()
FSORT = {'f4': z3.Float32(), 'f8': z3.Float64()}
MODE = {'numba': False, 'exact': False}      # exact: float targets of int->float casts stay in the exact domain
REALS = {'div': False}       # exact domain: allow symbolic/symbolic division as rational division (reals-for-floats assumption)      # numba typing mode: python int/float literals are int64/float64 (strong)


def kind_of_dtype(dt):
    dt = np.dtype(dt)
    if dt.kind == 'f':
        if dt.itemsize not in (4, 8):
            raise Unsupported('float%d' % (dt.itemsize * 8))
        return 'f4' if dt.itemsize == 4 else 'f8'
    if dt.kind == 'b':
        return 'b'
    if dt.kind in 'iu':
        return ('i' if dt.kind == 'i' else 'u') + str(dt.itemsize)
    if dt.kind == 'O':
        return 'O'
    raise Unsupported('dtype %s' % dt)


_DT = {'f4': np.float32, 'f8': np.float64, 'b': np.bool_, 'i8': np.int64, 'i4': np.int32, 'i2': np.int16, 'i1': np.int8,
       'u8': np.uint64, 'u4': np.uint32, 'u2': np.uint16, 'u1': np.uint8, 'x4': np.float32, 'xi': np.int64, 'O': object}


def dtype_of_kind(k):
    return _DT[k]


def bits(k):
    if k == 'xi':
        return 64
    return int(k[1:]) * 8


class X:
    """exact-domain payload"""
    __slots__ = ('tag', 'val')

    def __init__(self, tag, val):
        self.tag = tag; self.val = val


class Sym:
    __slots__ = ('t', 'k')
    __array_priority__ = 1000

    def __init__(self, t, k):
        self.t = t; self.k = k

    def __repr__(self):
        return ("Sym<%s>(%s)" % (self.k, self.t if self.k != 'x4' else (self.t.tag, self.t.val)))[:120]

    def __bool__(self):
        if self.k == 'b':
            return EX.branch(self.t)
        r = self != 0
        return bool(r)

    def __hash__(self):
        return id(self)

    def __index__(self):
        raise Unsupported("symbolic value used as a concrete index")

    def __float__(self):
        raise Unsupported("float() of a symbolic value")

    def __int__(self):
        raise Unsupported("int() of a symbolic value (un-instrumented call site)")

    @property
    def dtype(self):
        return np.dtype(dtype_of_kind(self.k))

    def astype(self, dt):
        return cast(self, kind_of_dtype(dt))

    def item(self):
        return self


def mkbool(t):
    t = z3.simplify(t)
    if z3.is_true(t):
        return True
    if z3.is_false(t):
        return False
    return Sym(t, 'b')


def is_sym(x):
    return isinstance(x, Sym)


# ---------------------------------------------------------------- exact domain
def xlift(x):
    if isinstance(x, Sym):
        if x.k == 'x4':
            return x.t
        if x.k == 'b':
            return X(z3.IntVal(0), z3.If(x.t, z3.RealVal(1), z3.RealVal(0)))
        if x.k == 'xi':
            return X(z3.IntVal(0), z3.ToReal(x.t))
        if x.k[0] in 'iu':
            v = z3.BV2Int(x.t, is_signed=(x.k[0] == 'i'))
            return X(z3.IntVal(0), z3.ToReal(v))
        raise Unsupported('mixing bit-precise floats with the exact domain')
    f = float(x)
    if f != f:
        return X(z3.IntVal(1), z3.RealVal(0))
    if f == float('inf'):
        return X(z3.IntVal(2), z3.RealVal(0))
    if f == float('-inf'):
        return X(z3.IntVal(3), z3.RealVal(0))
    from fractions import Fraction
    fr = Fraction(f)
    if (fr.denominator > (1 << 24) or (abs(fr.numerator) >= (1 << 60) and fr.denominator != 1)) and not REALS['div']:
        raise Unsupported('constant %r is not exactly representable in the exact domain' % (x,))
    return X(z3.IntVal(0), z3.RealVal(str(fr)))


def xconst(tag, val):
    return Sym(X(z3.IntVal(tag), z3.RealVal(val)), 'x4')


def _xkey(T):
    return z3.If(T.tag == 3, -1, z3.If(T.tag == 2, 1, 0))


_UNIQ = {}


def _unique_real(B):
    """z3 rational constant when the path condition forces the exact value B to be finite and equal to it, else None"""
    try:
        s = EX._inc_solver()
        s.push()
        try:
            if str(s.check()) != 'sat':
                return None
            m = s.model()
            if not z3.is_true(m.eval(B.tag == 0, model_completion=True)):
                return None
            v = m.eval(B.val, model_completion=True)
            if not z3.is_rational_value(v) or v.numerator_as_long() == 0:
                return None
            s.add(z3.Or(B.tag != 0, B.val != v))
            return v if str(s.check()) == 'unsat' else None
        finally:
            s.pop()
    except Exception:      # noqa
        return None


def xbin(op, a, b):
    A, B = xlift(a), xlift(b)
    fin = z3.And(A.tag == 0, B.tag == 0)
    anynan = z3.Or(A.tag == 1, B.tag == 1)
    if op in ('add', 'sub'):
        Bt = B.tag if op == 'add' else z3.If(B.tag == 2, 3, z3.If(B.tag == 3, 2, B.tag))
        val = A.val + B.val if op == 'add' else A.val - B.val
        tag = z3.If(anynan, 1, z3.If(fin, 0, z3.If(A.tag == 0, Bt, z3.If(Bt == 0, A.tag, z3.If(A.tag == Bt, A.tag, 1)))))
        tag = z3.simplify(tag)
        return Sym(X(tag, z3.simplify(z3.If(tag == 0, val, 0))), 'x4')
    if op == 'mul':
        # sign-aware infinities: finite*finite exact; 0*inf = NaN
        sa = z3.If(A.tag == 2, 1, z3.If(A.tag == 3, -1, z3.If(A.val > 0, 1, z3.If(A.val < 0, -1, 0))))
        sb = z3.If(B.tag == 2, 1, z3.If(B.tag == 3, -1, z3.If(B.val > 0, 1, z3.If(B.val < 0, -1, 0))))
        s = sa * sb
        tag = z3.If(anynan, 1, z3.If(fin, 0, z3.If(s == 0, 1, z3.If(s > 0, 2, 3))))
        tag = z3.simplify(tag)
        return Sym(X(tag, z3.simplify(z3.If(tag == 0, A.val * B.val, 0))), 'x4')
    if op == 'truediv':
        # only division by a non-zero power-of-two constant keeps exactness
        if isinstance(b, Sym):
            if not REALS['div']:
                raise Unsupported('exact domain: division by a symbolic value')
            # a divisor that the path condition forces to one finite non-zero value (e.g. max_cost - min_cost of a volume whose
            # extreme cells are pinned) is that constant: keeps the arithmetic linear
            key = ('div', B.tag.get_id(), B.val.get_id())
            if key not in _UNIQ:
                _UNIQ[key] = _unique_real(B)
            if _UNIQ[key] is not None:
                return xbin('mul', a, Sym(X(z3.IntVal(0), z3.RealVal(1) / _UNIQ[key]), 'x4'))
            # reals-for-floats mode (declared assumption of the harness): rational division; a zero divisor raises in numba
            # kernels (obligation) and gives NaN / +-inf in vectorised numpy code
            if MODE['numba']:
                EX.obligations.append(('no-zero-division', z3.Or(B.tag != 0, B.val != 0)))
            bz = z3.And(B.tag == 0, B.val == 0)
            tag = z3.simplify(z3.If(anynan, 1, z3.If(z3.Not(fin), 1, z3.If(bz, z3.If(A.val == 0, 1, z3.If(A.val > 0, 2, 3)), 0))))
            return Sym(X(tag, z3.If(tag == 0, A.val / B.val, 0)), 'x4')
        fb = float(b)
        if fb == 0 or fb != fb or abs(fb) == float('inf'):
            raise Unsupported('exact domain: division by %r' % fb)
        m, _ = np.frexp(fb)
        if abs(m) != 0.5:
            if not REALS['div']:
                raise Unsupported('exact domain: division by non power of two %r' % fb)
            from fractions import Fraction
            return Sym(X(A.tag, z3.simplify(z3.If(A.tag == 0, A.val / z3.RealVal(str(Fraction(fb))), 0))), 'x4')
        return xbin('mul', a, 1.0 / fb)
    if op in ('lt', 'le', 'gt', 'ge', 'eq', 'ne'):
        ka, kb = _xkey(A), _xkey(B)
        lt = z3.Or(ka < kb, z3.And(ka == kb, ka == 0, A.val < B.val))
        eq = z3.And(ka == kb, z3.Or(ka != 0, A.val == B.val))
        r = {'lt': lt, 'le': z3.Or(lt, eq), 'gt': z3.And(z3.Not(lt), z3.Not(eq)), 'ge': z3.Not(lt), 'eq': eq,
             'ne': z3.Not(eq)}[op]
        r = z3.And(z3.Not(anynan), r) if op != 'ne' else z3.Or(anynan, r)
        return mkbool(r)
    if op in ('min', 'max'):
        # numpy minimum/maximum: NaN propagates
        c = xbin('lt' if op == 'min' else 'gt', a, b)
        ct = c.t if isinstance(c, Sym) else z3.BoolVal(bool(c))
        tag = z3.simplify(z3.If(anynan, 1, z3.If(ct, A.tag, B.tag)))
        return Sym(X(tag, z3.simplify(z3.If(tag == 0, z3.If(ct, A.val, B.val), 0))), 'x4')
    raise Unsupported('exact domain op %s' % op)


# ---------------------------------------------------------------- generic scalars
def lift(x, k):
    """scalar (Sym or concrete) -> z3 term of kind k"""
    if isinstance(x, Sym):
        return cast(x, k).t
    if k == 'x4':
        return xlift(x)
    if k == 'xi':
        return xilift(x)
    if k in FSORT:
        f = float(x)
        if f != f:
            return z3.fpNaN(FSORT[k])
        if f == float('inf'):
            return z3.fpPlusInfinity(FSORT[k])
        if f == float('-inf'):
            return z3.fpMinusInfinity(FSORT[k])
        if k == 'f4':
            f = float(np.float32(f))
        if f == 0 and np.signbit(f):
            return z3.fpMinusZero(FSORT[k])
        return z3.FPVal(f, FSORT[k])
    if k == 'b':
        return z3.BoolVal(bool(x))
    return z3.BitVecVal(int(x), bits(k))


def kind_of(x):
    if isinstance(x, Sym):
        return x.k
    if isinstance(x, (bool, np.bool_)):
        return 'b'
    if isinstance(x, int):
        return 'i8' if MODE['numba'] else 'pyint'
    if isinstance(x, float):
        return 'f8' if MODE['numba'] else 'pyfloat'
    if isinstance(x, np.generic):
        return kind_of_dtype(x.dtype)
    raise Unsupported('scalar of type %s' % type(x))


def promote(ka, kb):
    if 'x4' in (ka, kb):
        return 'x4'
    if 'xi' in (ka, kb):
        o = kb if ka == 'xi' else ka
        if o in FSORT or o == 'pyfloat':
            return 'x4' if o == 'pyfloat' else _unsup('exact integer mixed with bit-precise float')
        return 'xi'
    if ka == 'pyint':
        ka = kb if kb not in ('b', 'pyint', 'pyfloat') else ('i8' if kb != 'pyfloat' else 'f8')
    if kb == 'pyint':
        kb = ka if ka not in ('b', 'pyfloat') else 'i8'
    if ka == 'pyfloat':
        ka = kb if kb in FSORT else 'f8'
    if kb == 'pyfloat':
        kb = ka if ka in FSORT else 'f8'
    if ka == kb:
        return ka
    if MODE['numba']:
        # numba: int64 (x) float32 -> float64
        if ka in FSORT and kb[0] in 'iu':
            return 'f8' if bits(kb) >= 32 else ka
        if kb in FSORT and ka[0] in 'iu':
            return 'f8' if bits(ka) >= 32 else kb
    return kind_of_dtype(np.result_type(dtype_of_kind(ka), dtype_of_kind(kb)))


def _unsup(msg):
    raise Unsupported(msg)


def xilift(x):
    """scalar -> z3 Int term (exact integer domain)"""
    if isinstance(x, Sym):
        if x.k == 'xi':
            return x.t
        if x.k == 'b':
            return z3.If(x.t, z3.IntVal(1), z3.IntVal(0))
        if x.k[0] in 'iu':
            return z3.BV2Int(x.t, is_signed=(x.k[0] == 'i'))
        raise Unsupported('kind %s in the exact integer domain' % x.k)
    return z3.IntVal(int(x))


def xibin(op, a, b):
    ta, tb = xilift(a), xilift(b)
    if op in CMP:
        f = {'lt': ta < tb, 'le': ta <= tb, 'gt': ta > tb, 'ge': ta >= tb, 'eq': ta == tb, 'ne': ta != tb}[op]
        return mkbool(f)
    if op in ('add', 'sub', 'mul'):
        return Sym(z3.simplify({'add': ta + tb, 'sub': ta - tb, 'mul': ta * tb}[op]), 'xi')
    if op in ('min', 'max'):
        c = (ta < tb) if op == 'min' else (ta > tb)
        return Sym(z3.simplify(z3.If(c, ta, tb)), 'xi')
    if op in ('floordiv', 'mod'):
        if isinstance(b, Sym) or int(b) <= 0:
            raise Unsupported('exact integer %s by a non-constant or non-positive divisor' % op)
        return Sym(z3.simplify(ta / tb if op == 'floordiv' else ta % tb), 'xi')     # z3 Int div/mod floor for positive divisors
    if op == 'truediv':
        return xbin('truediv', Sym(X(z3.IntVal(0), z3.ToReal(ta)), 'x4'), b if not isinstance(b, Sym) else Sym(xlift(b), 'x4'))
    raise Unsupported('exact integer op %s' % op)


def cast(x, k):
    if k == 'O':
        return x
    if k == 'xi':
        if isinstance(x, Sym):
            if x.k == 'xi':
                return x
            if x.k == 'x4':
                v = x.t.val
                return Sym(z3.simplify(z3.If(v >= 0, z3.ToInt(v), -z3.ToInt(-v))), 'xi')
            return Sym(xilift(x), 'xi')
        return np.int64(x)
    if isinstance(x, Sym) and x.k == 'xi':
        if k in ('i8', 'xi'):
            return x
        if k in ('x4', 'f4', 'f8'):
            return Sym(X(z3.IntVal(0), z3.ToReal(x.t)), 'x4')
        if k == 'b':
            return mkbool(x.t != 0)
        if k[0] in 'iu':
            return Sym(z3.Int2BV(x.t, bits(k)), k)
    if isinstance(x, Sym) and x.k == 'x4':
        if k in ('f4', 'f8', 'x4'):
            return x
        if k[0] in 'iu':
            # truncation toward zero of an exact value: stays in the exact integer domain
            v = x.t.val
            return Sym(z3.simplify(z3.If(v >= 0, z3.ToInt(v), -z3.ToInt(-v))), 'xi')
        if k == 'b':
            return mkbool(z3.Or(x.t.tag != 0, x.t.val != 0))
    if not isinstance(x, Sym):
        if k == 'x4':
            return np.float32(x)
        with np.errstate(all='ignore'):
            return dtype_of_kind(k)(x)
    if x.k == k:
        return x
    if k == 'x4':
        return Sym(xlift(x), 'x4')
    if x.k in FSORT and k in FSORT:
        return Sym(z3.fpToFP(RNE, x.t, FSORT[k]), k)
    if x.k in FSORT:
        if k == 'b':
            return Sym(z3.Not(z3.fpIsZero(x.t)), 'b')
        f = z3.fpToSBV if k[0] == 'i' else z3.fpToUBV
        return Sym(f(z3.RTZ(), x.t, z3.BitVecSort(bits(k))), k)
    if x.k == 'b':
        if k in FSORT and MODE['exact']:
            return Sym(xlift(x), 'x4')
        if k in FSORT:
            return Sym(z3.If(x.t, z3.FPVal(1.0, FSORT[k]), z3.FPVal(0.0, FSORT[k])), k)
        return Sym(z3.If(x.t, z3.BitVecVal(1, bits(k)), z3.BitVecVal(0, bits(k))), k)
    if k in FSORT:
        if MODE['exact']:
            return Sym(xlift(x), 'x4')
        return Sym(z3.fpSignedToFP(RNE, x.t, FSORT[k]) if x.k[0] == 'i' else z3.fpUnsignedToFP(RNE, x.t, FSORT[k]), k)
    if k == 'b':
        return Sym(x.t != 0, 'b')
    bw, nw = bits(x.k), bits(k)
    if nw == bw:
        return Sym(x.t, k)
    if nw < bw:
        return Sym(z3.Extract(nw - 1, 0, x.t), k)
    return Sym(z3.SignExt(nw - bw, x.t) if x.k[0] == 'i' else z3.ZeroExt(nw - bw, x.t), k)


CMP = ('lt', 'le', 'gt', 'ge', 'eq', 'ne')
CONC = {'add': operator.add, 'sub': operator.sub, 'mul': operator.mul, 'truediv': operator.truediv,
        'floordiv': operator.floordiv, 'mod': operator.mod,
        'and': operator.and_, 'or': operator.or_, 'xor': operator.xor, 'lt': operator.lt, 'le': operator.le,
        'gt': operator.gt, 'ge': operator.ge, 'eq': operator.eq, 'ne': operator.ne,
        'min': lambda a, b: np.minimum(a, b), 'max': lambda a, b: np.maximum(a, b),
        'lshift': operator.lshift, 'rshift': operator.rshift}


def binop(op, a, b):
    if not isinstance(a, Sym) and not isinstance(b, Sym):
        with np.errstate(all='ignore'):
            return CONC[op](a, b)
    ka, kb = kind_of(a), kind_of(b)
    if ka == 'x4' or kb == 'x4':
        if op in ('and', 'or', 'xor', 'floordiv', 'mod', 'lshift', 'rshift'):
            raise Unsupported('exact domain op %s' % op)
        return xbin(op, a, b)
    if ka == 'xi' or kb == 'xi':
        if (ka in FSORT or kb in FSORT):
            raise Unsupported('exact integer mixed with bit-precise float')
        if ka == 'pyfloat' or kb == 'pyfloat':
            return xbin(op, Sym(xlift(a), 'x4') if isinstance(a, Sym) else a, Sym(xlift(b), 'x4') if isinstance(b, Sym) else b)
        return xibin(op, a, b)
    k = promote(ka, kb)
    if op == 'truediv' and k not in FSORT:
        k = 'f8'
    if k == 'b':
        if op in ('and', 'or', 'xor', 'eq', 'ne', 'min', 'max'):
            ta, tb = lift(a, 'b'), lift(b, 'b')
            f = {'and': z3.And, 'or': z3.Or, 'xor': z3.Xor, 'eq': lambda x, y: x == y, 'ne': lambda x, y: x != y,
                 'min': z3.And, 'max': z3.Or}[op]
            return mkbool(f(ta, tb))
        k = 'i8'
    if k in FSORT and MODE['exact'] and ka not in FSORT and kb not in FSORT or \
            (k in FSORT and MODE['exact'] and not (isinstance(a, Sym) and a.k in FSORT) and not (isinstance(b, Sym) and b.k in FSORT)):
        # exact mode: a float result computed from integers / concrete floats stays exact
        return xbin(op, Sym(xlift(a), 'x4') if isinstance(a, Sym) else a, Sym(xlift(b), 'x4') if isinstance(b, Sym) else b)
    ta, tb = lift(a, k), lift(b, k)
    if k in FSORT:
        if op == 'floordiv' or op == 'mod':
            raise Unsupported('float %s' % op)
        f = {'add': lambda: z3.fpAdd(RNE, ta, tb), 'sub': lambda: z3.fpSub(RNE, ta, tb),
             'mul': lambda: z3.fpMul(RNE, ta, tb), 'truediv': lambda: z3.fpDiv(RNE, ta, tb),
             'lt': lambda: z3.fpLT(ta, tb), 'le': lambda: z3.fpLEQ(ta, tb), 'gt': lambda: z3.fpGT(ta, tb),
             'ge': lambda: z3.fpGEQ(ta, tb), 'eq': lambda: z3.fpEQ(ta, tb), 'ne': lambda: z3.Not(z3.fpEQ(ta, tb)),
             # np.minimum/np.maximum: NaN propagates
             'min': lambda: z3.If(z3.Or(z3.fpIsNaN(ta), z3.And(z3.Not(z3.fpIsNaN(tb)), z3.fpLT(ta, tb))), ta, tb),
             'max': lambda: z3.If(z3.Or(z3.fpIsNaN(ta), z3.And(z3.Not(z3.fpIsNaN(tb)), z3.fpGT(ta, tb))), ta, tb)}[op]()
        if op in CMP:
            return mkbool(f)
        return Sym(f, k)
    sg = k[0] == 'i'

    def fdiv():
        # python/numpy floor division on signed ints (divisor assumed non-zero: obligation recorded)
        EX.obligations.append(('nonzero-divisor', tb != 0))
        if not sg:
            return z3.UDiv(ta, tb)
        q = ta / tb          # z3 bvsdiv truncates toward zero
        r = z3.SRem(ta, tb)
        return z3.If(z3.And(r != 0, (r < 0) != (tb < 0)), q - 1, q)

    def fmod():
        EX.obligations.append(('nonzero-divisor', tb != 0))
        if not sg:
            return z3.URem(ta, tb)
        r = z3.SRem(ta, tb)
        return z3.If(z3.And(r != 0, (r < 0) != (tb < 0)), r + tb, r)
    f = {'add': lambda: ta + tb, 'sub': lambda: ta - tb, 'mul': lambda: ta * tb,
         'and': lambda: ta & tb, 'or': lambda: ta | tb, 'xor': lambda: ta ^ tb,
         'floordiv': fdiv, 'mod': fmod,
         'lshift': lambda: ta << tb, 'rshift': lambda: (ta >> tb) if sg else z3.LShR(ta, tb),
         'lt': lambda: (ta < tb) if sg else z3.ULT(ta, tb), 'le': lambda: (ta <= tb) if sg else z3.ULE(ta, tb),
         'gt': lambda: (ta > tb) if sg else z3.UGT(ta, tb), 'ge': lambda: (ta >= tb) if sg else z3.UGE(ta, tb),
         'eq': lambda: ta == tb, 'ne': lambda: ta != tb,
         'min': lambda: z3.If((ta < tb) if sg else z3.ULT(ta, tb), ta, tb),
         'max': lambda: z3.If((ta > tb) if sg else z3.UGT(ta, tb), ta, tb)}[op]()
    if op in CMP:
        return mkbool(f)
    return Sym(z3.simplify(f), k)


for _name in ('add', 'sub', 'mul', 'truediv', 'floordiv', 'mod', 'and', 'or', 'xor', 'lshift', 'rshift') + CMP:
    setattr(Sym, '__%s__' % _name, (lambda op: lambda a, b: binop(op, a, b))(_name))
    if _name not in CMP:
        setattr(Sym, '__r%s__' % _name, (lambda op: lambda a, b: binop(op, b, a))(_name))


def sneg(a):
    if not isinstance(a, Sym):
        return -a
    if a.k == 'x4':
        t = a.t
        return Sym(X(z3.simplify(z3.If(t.tag == 2, 3, z3.If(t.tag == 3, 2, t.tag))), z3.simplify(-t.val)), 'x4')
    if a.k == 'b':
        raise Unsupported('negation of a boolean')
    if a.k == 'xi':
        return Sym(z3.simplify(-a.t), 'xi')
    return Sym(z3.fpNeg(a.t), a.k) if a.k in FSORT else Sym(-a.t, a.k)


def sabs(a):
    if not isinstance(a, Sym):
        return abs(a)
    if a.k == 'x4':
        return Sym(X(z3.simplify(z3.If(a.t.tag == 3, 2, a.t.tag)), z3.simplify(z3.If(a.t.val < 0, -a.t.val, a.t.val))), 'x4')
    if a.k in FSORT:
        return Sym(z3.fpAbs(a.t), a.k)
    if a.k == 'xi':
        return Sym(z3.simplify(z3.If(a.t < 0, -a.t, a.t)), 'xi')
    if a.k[0] == 'u':
        return a
    return Sym(z3.If(a.t < 0, -a.t, a.t), a.k)


def snot(a):
    if not isinstance(a, Sym):
        return not a
    if a.k != 'b':
        return mkbool(z3.Not((a != 0).t)) if isinstance(a != 0, Sym) else (not (a != 0))
    return mkbool(z3.Not(a.t))


def sinvert(a):
    if not isinstance(a, Sym):
        if isinstance(a, (bool, np.bool_)):
            return not a
        return ~a
    return snot(a) if a.k == 'b' else Sym(~a.t, a.k)


Sym.__neg__ = sneg
Sym.__pos__ = lambda a: a
Sym.__abs__ = sabs
Sym.__invert__ = sinvert


def spow(a, n):
    if isinstance(n, Sym):
        raise Unsupported('symbolic exponent')
    if n == 2:
        return binop('mul', a, a)
    if n == 1:
        return a
    if n == 0.5:
        return ssqrt(a)
    raise Unsupported('pow %r' % (n,))


Sym.__pow__ = spow


def isnan(a):
    if not isinstance(a, Sym):
        return bool(np.isnan(a))
    if a.k == 'x4':
        return mkbool(a.t.tag == 1)
    return mkbool(z3.fpIsNaN(a.t)) if a.k in FSORT else False


def isinf(a):
    if not isinstance(a, Sym):
        return bool(np.isinf(a))
    if a.k == 'x4':
        return mkbool(z3.Or(a.t.tag == 2, a.t.tag == 3))
    return mkbool(z3.fpIsInf(a.t)) if a.k in FSORT else False


def isfinite(a):
    if not isinstance(a, Sym):
        return bool(np.isfinite(a))
    if a.k == 'x4':
        return mkbool(a.t.tag == 0)
    return mkbool(z3.Not(z3.Or(z3.fpIsInf(a.t), z3.fpIsNaN(a.t)))) if a.k in FSORT else True


_EXP = {}


def sexp(a):
    """exp: concrete -> numpy; exact domain -> uninterpreted function over the reals with the axiom exp(x) > 0 (recorded as a
    path assumption); NaN -> NaN"""
    if not isinstance(a, Sym):
        with np.errstate(all='ignore'):
            return np.exp(a)
    if a.k != 'x4':
        raise Unsupported('exp on kind %s' % a.k)
    if 'f' not in _EXP:
        _EXP['f'] = z3.Function('exp_uf', z3.RealSort(), z3.RealSort())
    e = _EXP['f'](a.t.val)
    EX.assume(e > 0)
    # finite -> finite positive ; NaN -> NaN ; +inf -> +inf ; -inf -> 0
    tag = z3.simplify(z3.If(a.t.tag == 3, 0, a.t.tag))
    return Sym(X(tag, z3.If(a.t.tag == 0, e, z3.RealVal(0))), 'x4')


def sqrt_uf(val):
    """sqrt_uf(canonical form of the real term): polynomial arguments are expanded into a sorted sum of monomials so that two
    different ways of computing the same polynomial meet in the same application (congruence does the rest)"""
    if 'sq' not in _EXP:
        _EXP['sq'] = z3.Function('sqrt_uf', z3.RealSort(), z3.RealSort())
    v = z3.simplify(val, som=True, sort_sums=True, flat=True)
    return _EXP['sq'](v), v


def ssqrt(a):
    if not isinstance(a, Sym):
        with np.errstate(all='ignore'):
            return np.sqrt(a)
    if a.k in FSORT:
        return Sym(z3.fpSqrt(RNE, a.t), a.k)
    if a.k == 'x4':
        # exact domain: sqrt is an uninterpreted function over the reals with the axioms s >= 0, s*s == x for x >= 0 (recorded as
        # path assumptions: "reals-for-floats", the rounding of the square root is outside the claim); negative / NaN -> NaN
        e, v = sqrt_uf(a.t.val)
        EX.assume(z3.Implies(v >= 0, z3.And(e >= 0, e * e == v)))
        neg = z3.And(a.t.tag == 0, v < 0)
        tag = z3.simplify(z3.If(neg, 1, z3.If(a.t.tag == 3, 1, a.t.tag)))
        return Sym(X(tag, z3.If(z3.And(a.t.tag == 0, v >= 0), e, z3.RealVal(0))), 'x4')
    raise Unsupported('sqrt on kind %s' % a.k)


def srint(a):
    if not isinstance(a, Sym):
        return np.rint(a)
    if a.k in FSORT:
        return Sym(z3.fpRoundToIntegral(RNE, a.t), a.k)
    if a.k == 'x4':
        v = a.t.val
        fl = z3.ToInt(v); fr = v - z3.ToReal(fl)
        r = z3.If(fr < 0.5, fl, z3.If(fr > 0.5, fl + 1, z3.If(fl % 2 == 0, fl, fl + 1)))
        return Sym(X(a.t.tag, z3.simplify(z3.If(a.t.tag == 0, z3.ToReal(r), 0))), 'x4')
    return a


def sfloor(a):
    if not isinstance(a, Sym):
        return np.floor(a)
    if a.k in FSORT:
        return Sym(z3.fpRoundToIntegral(z3.RTN(), a.t), a.k)
    if a.k == 'x4':
        return Sym(X(a.t.tag, z3.simplify(z3.If(a.t.tag == 0, z3.ToReal(z3.ToInt(a.t.val)), 0))), 'x4')
    return a


def sceil(a):
    if not isinstance(a, Sym):
        return np.ceil(a)
    if a.k in FSORT:
        return Sym(z3.fpRoundToIntegral(z3.RTP(), a.t), a.k)
    if a.k == 'x4':
        return sneg(sfloor(sneg(a)))
    return a


def ite(c, a, b):
    if not isinstance(c, Sym):
        return a if c else b
    ct = z3.simplify(c.t)
    if z3.is_true(ct):
        return a
    if z3.is_false(ct):
        return b
    if a is b:
        return a
    sa, sb = isinstance(a, Sym), isinstance(b, Sym)
    ka, kb = kind_of(a), kind_of(b)
    if ka == 'x4' or kb == 'x4':
        A, B = xlift(a), xlift(b)
        return Sym(X(z3.simplify(z3.If(ct, A.tag, B.tag)), z3.simplify(z3.If(ct, A.val, B.val))), 'x4')
    if ka == 'xi' or kb == 'xi':
        return Sym(z3.simplify(z3.If(ct, xilift(a), xilift(b))), 'xi')
    if sa or sb:
        k = promote(ka, kb)
    else:
        k = kind_of_dtype(np.result_type(np.asarray(a), np.asarray(b)))
    if k == 'pyint':
        k = 'i8'
    if k == 'pyfloat':
        k = 'f8'
    if k in FSORT and MODE['exact'] and not (sa and a.k in FSORT) and not (sb and b.k in FSORT):
        A, B = xlift(a), xlift(b)
        return Sym(X(z3.simplify(z3.If(ct, A.tag, B.tag)), z3.simplify(z3.If(ct, A.val, B.val))), 'x4')
    return Sym(z3.If(ct, lift(a, k), lift(b, k)), k)


def term_eq(a, b, k=None):
    """bit-identity of two scalars (NaN == NaN) as a z3 Bool"""
    if not isinstance(a, Sym) and not isinstance(b, Sym):
        fa, fb = np.asarray(a), np.asarray(b)
        return z3.BoolVal(bool((fa == fb) or (fa != fa and fb != fb)))
    k = k or (a.k if isinstance(a, Sym) else b.k)
    if k == 'x4':
        A, B = xlift(a), xlift(b)
        return z3.And(A.tag == B.tag, z3.Or(A.tag != 0, A.val == B.val))
    if k == 'xi':
        return xilift(a) == xilift(b)
    ta, tb = lift(a, k), lift(b, k)
    if k in FSORT:
        return z3.Or(z3.And(z3.fpIsNaN(ta), z3.fpIsNaN(tb)), ta == tb)
    return ta == tb


def to_obj(a):
    """typed ndarray -> object ndarray whose elements are *numpy scalars* (astype(object) would give python scalars,
    which are weakly typed in promotions)"""
    if a.dtype == object:
        return a
    o = np.empty(a.shape, dtype=object)
    if a.size:
        if a.dtype.kind in 'biuf':
            flat = o.reshape(-1)
            flat[:] = list(a.reshape(-1))      # list() of a typed 1-d array yields numpy scalars
            o = flat.reshape(a.shape)
        else:
            o[...] = a.astype(object)
    return o


def _elt(f, *arrs):
    arrs = [to_obj(x) if (isinstance(x, np.ndarray) and x.dtype != object) else x for x in arrs]
    return np.frompyfunc(f, len(arrs), 1)(*arrs)


def _obj(a):
    if isinstance(a, SymArray):
        return a._a
    if isinstance(a, Masked):
        return a.materialize()._a
    if isinstance(a, np.ndarray) and a.dtype != object:
        return to_obj(a)
    return a


def result_kind(objarr, default='f8'):
    """kind of an object array of scalars: the promotion of all distinct element kinds"""
    ks = set()
    for e in objarr.flat:
        k = kind_of(e)
        ks.add(k)
        if len(ks) > 3:
            break
    if not ks:
        return default
    strong = [k for k in ks if k not in ('pyint', 'pyfloat')]
    if not strong:
        return 'f8' if 'pyfloat' in ks else 'i8'
    k = strong[0]
    for o in strong[1:]:
        k = promote(k, o)
    if 'pyfloat' in ks and k not in FSORT and k != 'x4':
        k = 'f8'
    return k


class NZ:
    """one component of np.where(symbolic mask) / np.nonzero"""
    def __init__(self, mask, axis):
        self.mask = mask; self.axis = axis

    @property
    def size(self):
        """number of selected elements (symbolic count)"""
        return f_sum(self.mask.astype(np.int64))

    def __len__(self):
        raise Unsupported('len() of a data-dependent selection')


class Masked:
    """lazy compressed view a[mask] for a symbolic boolean mask: elementwise work stays full size and a store back through
    the same mask is an ite-merge; any use that needs the compressed array itself (its shape, as an index, combined with a
    full array) materialises it by forking on the mask elements"""
    def __init__(self, full, mask):
        self.full = full; self.mask = mask
        self._mat = None

    def materialize(self):
        if self._mat is None or self._mat[0] is not EX.decided:
            self._mat = (EX.decided, SymArray(self.full._a[concretize_mask(self.mask)], self.full.kind))
        return self._mat[1]

    shape = property(lambda s: s.materialize().shape)
    size = property(lambda s: s.materialize().size)
    ndim = property(lambda s: 1)
    dtype = property(lambda s: s.full.dtype)

    def __len__(self):
        return len(self.materialize())

    def __getitem__(self, k):
        return self.materialize()[k]

    def __iter__(self):
        return iter(self.materialize())

    def astype(self, dt, **kw):
        return Masked(self.full.astype(dt), self.mask)

    def __array_ufunc__(self, ufunc, method, *inputs, **kwargs):
        return SymArray.__array_ufunc__(self.full, ufunc, method, *inputs, **kwargs)

    def __array_function__(self, func, types, args, kwargs):
        args = tuple(a.materialize() if isinstance(a, Masked) else a for a in args)
        return SymArray.__array_function__(args[0] if isinstance(args[0], SymArray) else self.materialize(), func, types, args, kwargs)


def concretize_mask(mask):
    """fork on every symbolic element of a boolean SymArray -> concrete bool ndarray"""
    cached = getattr(mask, '_conc', None)
    if cached is not None and cached[0] == len(EX.trace) or cached is not None and cached[2] is EX.decided:
        return cached[1]
    out = np.zeros(mask.shape, dtype=bool)
    for idx in np.ndindex(*mask.shape):
        e = mask._a[idx]
        out[idx] = bool(e)       # Sym.__bool__ forks
    mask._conc = (len(EX.trace), out, EX.decided)
    return out


def has_sym_elems(a):
    for e in a.flat:
        if isinstance(e, Sym):
            return True
    return False


class SymArray:
    __array_priority__ = 2000

    def __init__(self, a, kind):
        if isinstance(a, SymArray):
            a = a._a
        self._a = a if (isinstance(a, np.ndarray) and a.dtype == object) else to_obj(np.asarray(a))
        self.kind = kind

    shape = property(lambda s: s._a.shape)
    ndim = property(lambda s: s._a.ndim)
    size = property(lambda s: s._a.size)
    dtype = property(lambda s: np.dtype(dtype_of_kind(s.kind)))
    # strides in bytes of the *logical* dtype (code multiplies/forwards them to as_strided)
    strides = property(lambda s: tuple(st // s._a.itemsize * np.dtype(dtype_of_kind(s.kind)).itemsize for st in s._a.strides))
    data = property(lambda s: s)
    nbytes = property(lambda s: s._a.size * np.dtype(dtype_of_kind(s.kind)).itemsize)
    itemsize = property(lambda s: np.dtype(dtype_of_kind(s.kind)).itemsize)
    flags = property(lambda s: s._a.flags)

    @property
    def flat(self):
        return iter(self._a.flat)

    def __len__(self):
        return len(self._a)

    def __repr__(self):
        return "SymArray<%s>%s" % (self.kind, self.shape)

    def __iter__(self):
        for i in range(len(self)):
            yield self[i]

    def __bool__(self):
        if self.size != 1:
            raise ValueError("truth value of an array with more than one element is ambiguous")
        return bool(self._a.reshape(-1)[0])

    def is_concrete(self):
        return not has_sym_elems(self._a)

    def to_numpy(self):
        if not self.is_concrete():
            raise Unsupported('concretisation of a symbolic array')
        return self._a.astype(dtype_of_kind(self.kind))

    def __array__(self, dtype=None, copy=None):
        if self.is_concrete():
            r = self._a.astype(dtype_of_kind(self.kind))
            return r.astype(dtype) if dtype is not None else r
        raise Unsupported('np.asarray of a symbolic array (un-modelled numpy call)')

    @staticmethod
    def wrap(r, kind):
        return SymArray(r, kind) if isinstance(r, np.ndarray) else r

    # ---- indexing -----------------------------------------------------------------
    def _norm_key(self, k):
        ks = list(k) if isinstance(k, tuple) else [k]
        out = []
        for x in ks:
            if isinstance(x, Masked):
                x = x.materialize()
            if isinstance(x, SymArray):
                if x.is_concrete():
                    x = x._a.astype(dtype_of_kind(x.kind))
                elif x.kind == 'b':
                    x = concretize_mask(x)
            elif isinstance(x, NZ):
                x = np.nonzero(concretize_mask(x.mask))[x.axis]
            elif isinstance(x, list) and any(isinstance(e, Sym) for e in x):
                x = SymArray(np.array(x, dtype=object), 'i8')
            out.append(x)
        return tuple(out)

    def __getitem__(self, k):
        if isinstance(k, SymArray) and k.kind == 'b' and not k.is_concrete() and k.shape == self.shape:
            return Masked(self, k)       # lazy; materialises (forks) only when the compressed array itself is needed
        if isinstance(k, tuple) and k and all(isinstance(x, NZ) for x in k) and len(k) == self.ndim \
                and all(x.mask is k[0].mask for x in k) and [x.axis for x in k] == list(range(self.ndim)) and k[0].mask.shape == self.shape:
            # a[np.where(mask)]: lazy compressed view (elementwise work stays full size, the scatter is an ite-merge)
            return Masked(self, k[0].mask)
        ks = self._norm_key(k)
        if not any(isinstance(x, (Sym, SymArray)) for x in ks):
            kk = ks if isinstance(k, tuple) else ks[0]
            return SymArray.wrap(self._a[kk], self.kind)
        return self._sym_get(ks)

    def _expand(self, ks):
        """expand Ellipsis / missing trailing slices so that len(key) == ndim (no newaxis support with symbolic keys)"""
        if any(x is None for x in ks):
            raise Unsupported('newaxis together with a symbolic index')
        if any(x is Ellipsis for x in ks):
            i = [j for j, x in enumerate(ks) if x is Ellipsis][0]
            fill = self.ndim - (len(ks) - 1)
            ks = ks[:i] + (slice(None),) * fill + ks[i + 1:]
        ks = ks + (slice(None),) * (self.ndim - len(ks))
        return ks

    def _candidates(self, i, n):
        """python-style index i (Sym int) into an axis of length n: record in-bounds obligation, yield (cond, j)"""
        it = i.t if (isinstance(i, Sym) and i.k == 'xi') else cast(i, 'i8').t
        EX.obligations.append(('in-bounds', z3.And(it >= -n, it < n)))
        return [(mkbool(z3.Or(it == j, it == j - n)), j) for j in range(n)]

    def _sym_get(self, ks):
        ks = self._expand(ks)
        arr_pos = [p for p, x in enumerate(ks) if isinstance(x, (SymArray, np.ndarray, list))]
        if arr_pos:
            # advanced indexing: broadcast all array/scalar (non-slice) components; slices not supported together
            if any(isinstance(x, slice) for x in ks):
                # allow trailing/leading full slices by moving to elementwise gather of sub-arrays
                return self._sym_get_adv_with_slices(ks)
            comps = [x._a if isinstance(x, SymArray) else np.asarray(x, dtype=object) for x in ks]
            b = np.broadcast(*comps)
            out = np.empty(b.shape, dtype=object)
            bc = [np.broadcast_to(c, b.shape) for c in comps]
            for idx in np.ndindex(*b.shape):
                out[idx] = self._scalar_get(tuple(c[idx] for c in bc))
            return SymArray(out, self.kind)
        if all(not isinstance(x, slice) for x in ks):
            return self._scalar_get(ks)
        # Sym scalars with slices: ite-merge of concrete sub-arrays over candidate indices
        sym_pos = [p for p, x in enumerate(ks) if isinstance(x, Sym)]
        cands = [self._candidates(ks[p], self.shape[p]) for p in sym_pos]
        res = None
        for combo in itertools.product(*cands):
            kk = list(ks); cond = True
            for p, (c, j) in zip(sym_pos, combo):
                kk[p] = j
                cond = sand(cond, c)
            sub = self._a[tuple(kk)]
            if res is None:
                res = sub.copy() if isinstance(sub, np.ndarray) else sub
            else:
                if isinstance(sub, np.ndarray):
                    res = _elt(lambda new, old, cond=cond: ite(cond, new, old), sub, res)
                else:
                    res = ite(cond, sub, res)
        return SymArray.wrap(res, self.kind)

    def _sym_get_adv_with_slices(self, ks):
        sl_pos = [p for p, x in enumerate(ks) if isinstance(x, slice)]
        # only support: slices are the trailing axes or leading axes (numpy then keeps the natural order)
        other = [p for p in range(len(ks)) if p not in sl_pos]
        if not (sl_pos == list(range(sl_pos[0], sl_pos[0] + len(sl_pos))) and (sl_pos[0] == 0 or sl_pos[-1] == len(ks) - 1)):
            raise Unsupported('advanced symbolic index mixed with interior slices')
        comps = [ks[p]._a if isinstance(ks[p], SymArray) else np.asarray(ks[p], dtype=object) for p in other]
        b = np.broadcast(*comps)
        bc = [np.broadcast_to(c, b.shape) for c in comps]
        sub_shape = self._a[tuple(ks[p] if p in sl_pos else 0 for p in range(len(ks)))].shape
        trailing = sl_pos[-1] == len(ks) - 1 and sl_pos[0] != 0
        out = np.empty((b.shape + sub_shape) if trailing else (sub_shape + b.shape), dtype=object)
        for idx in np.ndindex(*b.shape):
            kk = list(ks)
            for p, c in zip(other, bc):
                kk[p] = c[idx]
            sub = self._sym_get(tuple(kk))
            sub = sub._a if isinstance(sub, SymArray) else sub
            if trailing:
                out[idx] = sub
            else:
                out[(Ellipsis,) + idx] = sub
        return SymArray(out, self.kind)

    def _scalar_get(self, ks):
        """all components are ints or Sym ints"""
        sym_pos = [p for p, x in enumerate(ks) if isinstance(x, Sym)]
        if not sym_pos:
            return self._a[tuple(int(x) for x in ks)]
        cands = [self._candidates(ks[p], self.shape[p]) for p in sym_pos]
        res = None
        for combo in itertools.product(*cands):
            kk = list(ks); cond = True
            for p, (c, j) in zip(sym_pos, combo):
                kk[p] = j
                cond = sand(cond, c)
            v = self._a[tuple(int(x) for x in kk)]
            res = v if res is None else ite(cond, v, res)
        return res

    def __setitem__(self, k, v):
        if isinstance(v, Masked):
            # a[mask] = b[mask]
            if isinstance(k, SymArray) and k is v.mask or (isinstance(k, SymArray) and k.kind == 'b'):
                return self._mask_store(k, v.full)
            if isinstance(k, tuple) and k and all(isinstance(x, NZ) for x in k) and all(x.mask is v.mask for x in k) and len(k) == self.ndim:
                return self._mask_store(v.mask, v.full)
            raise Unsupported('store of a masked view through a different key')
        if isinstance(k, SymArray) and k.kind == 'b' and not k.is_concrete():
            return self._mask_store(k, v)
        if isinstance(k, tuple) and any(isinstance(x, NZ) for x in k) and not all(isinstance(x, NZ) for x in k) \
                and all(isinstance(x, (NZ, int, np.integer, slice)) for x in k):
            # a[nz0, nz1, 3] = v : selection on some axes, basic indexing on the others -> mask store on the basic-indexed view
            nzs = [x for x in k if isinstance(x, NZ)]
            if not all(x.mask is nzs[0].mask for x in nzs) or [x.axis for x in nzs] != list(range(nzs[0].mask.ndim)):
                raise Unsupported('store through partial / permuted selection components')
            view = self._a[tuple(slice(None) if isinstance(x, NZ) else x for x in k)]
            if view.shape != nzs[0].mask.shape:
                raise Unsupported('selection mask does not match the indexed view')
            SymArray(view, self.kind)._mask_store(nzs[0].mask, v if not isinstance(v, Masked) else v.full)
            return
        if isinstance(k, tuple) and k and all(isinstance(x, NZ) for x in k):
            if not all(x.mask is k[0].mask for x in k):
                raise Unsupported('store through components of different selections')
            m = k[0].mask
            axes = [x.axis % m.ndim for x in k]
            if len(k) < m.ndim:
                # only some components of np.where(mask) are used (e.g. rows/cols of a 3-D mask): a cell is selected when
                # any element along the dropped axes is
                if axes != sorted(axes):
                    raise Unsupported('permuted selection components')
                dropped = tuple(a for a in range(m.ndim) if a not in axes)
                m = f_any(m, axis=dropped)
            elif axes != list(range(m.ndim)):
                raise Unsupported('permuted selection components')
            return self._mask_store(m, v)
        ks = self._norm_key(k)
        if any(isinstance(x, (Sym, SymArray)) for x in ks):
            return self._sym_set(ks, v)
        kk = ks if isinstance(k, tuple) else ks[0]
        vv = _obj(v)
        if isinstance(vv, np.ndarray):
            vv = _elt(lambda e: cast(e, self.kind), vv.astype(object))
        elif isinstance(vv, (list, tuple)):
            vv = _elt(lambda e: cast(e, self.kind), np.array(vv, dtype=object))
        else:
            vv = cast(vv, self.kind)
        self._a[kk] = vv

    def _mask_store(self, mask, v):
        vv = _obj(v)
        kk = self.kind
        if isinstance(vv, np.ndarray) and vv.shape != self.shape and vv.ndim >= 1 and vv.size != 1:
            raise Unsupported('boolean-mask store of a compressed value array')
        m = mask._a if isinstance(mask, SymArray) else np.asarray(mask)
        m = np.broadcast_to(m, self.shape) if m.shape != self.shape else m
        vb = np.broadcast_to(np.asarray(vv, dtype=object), self.shape)
        self._a[...] = _elt(lambda c, new, old: (cast(ite(c, cast(new, kk), old), kk) if isinstance(c, Sym)
                                                 else (cast(new, kk) if c else old)), m, vb, self._a)

    def _sym_set(self, ks, v):
        ks = self._expand(ks)
        if any(isinstance(x, (SymArray, np.ndarray, slice)) for x in ks):
            raise Unsupported('store through a symbolic index array / slice')
        sym_pos = [p for p, x in enumerate(ks) if isinstance(x, Sym)]
        cands = [self._candidates(ks[p], self.shape[p]) for p in sym_pos]
        v = cast(v, self.kind)
        for combo in itertools.product(*cands):
            kk = list(ks); cond = True
            for p, (c, j) in zip(sym_pos, combo):
                kk[p] = j
                cond = sand(cond, c)
            kk = tuple(int(x) for x in kk)
            self._a[kk] = cast(ite(cond, v, self._a[kk]), self.kind)

    # ---- methods ------------------------------------------------------------------
    def astype(self, dt, **kw):
        k = kind_of_dtype(dt)
        if k == 'O':
            return SymArray(self._a.copy(), self.kind)
        if self.kind == 'x4' and k in ('f4', 'f8'):
            return SymArray(self._a.copy(), 'x4')
        if self.kind in ('x4', 'xi') and k[0] in 'iu' and k != 'u2':
            return SymArray(_elt(lambda e: cast(e, 'xi'), self._a), 'xi')
        if self.kind == 'xi' and k in ('f4', 'f8'):
            return SymArray(_elt(lambda e: cast(e, 'x4'), self._a), 'x4')
        return SymArray(_elt(lambda e: cast(e, k), self._a), k)

    def copy(self, *a, **k):
        return SymArray(self._a.copy(), self.kind)

    def __deepcopy__(self, memo):
        return SymArray(self._a.copy(), self.kind)

    def __copy__(self):
        return SymArray(self._a.copy(), self.kind)

    def transpose(self, *axes):
        return SymArray(self._a.transpose(*axes), self.kind)

    T = property(lambda s: s.transpose())

    def reshape(self, *s, **kw):
        return SymArray(self._a.reshape(*s), self.kind)

    def ravel(self, *a):
        return SymArray(self._a.ravel(), self.kind)

    def flatten(self, *a):
        return SymArray(self._a.flatten(), self.kind)

    def squeeze(self, axis=None):
        return SymArray.wrap(self._a.squeeze(axis), self.kind)

    def swapaxes(self, i, j):
        return SymArray(self._a.swapaxes(i, j), self.kind)

    def fill(self, v):
        self._a[...] = cast(v, self.kind)

    def item(self, *a):
        return self._a.item(*a)

    def tolist(self):
        return self._a.tolist()

    def view(self, *a, **k):
        if not a and not k:
            return SymArray(self._a.view(), self.kind)
        raise Unsupported('dtype view')

    def sum(self, axis=None, **kw):
        return f_sum(self, axis=axis, **kw)

    def min(self, axis=None, **kw):
        return f_min(self, axis=axis)

    def max(self, axis=None, **kw):
        return f_max(self, axis=axis)

    def any(self, axis=None, **kw):
        return f_any(self, axis=axis)

    def all(self, axis=None, **kw):
        return f_all(self, axis=axis)

    def mean(self, axis=None, **kw):
        return f_mean(self, axis=axis)

    def cumsum(self, axis=None, dtype=None, **kw):
        return f_cumsum(self, axis=axis, dtype=dtype)

    def argsort(self, axis=-1, **kw):
        return f_argsort(self, axis=axis)

    def argmin(self, axis=None, **kw):
        return FUNCS['argmin'](self, axis=axis)

    def argmax(self, axis=None, **kw):
        return FUNCS['argmax'](self, axis=axis)

    def nonzero(self):
        return f_where(self != 0 if self.kind != 'b' else self)

    def round(self, decimals=0, **kw):
        if decimals != 0:
            raise Unsupported('round(decimals!=0)')
        return SymArray(_elt(srint, self._a), self.kind)

    def clip(self, lo=None, hi=None, **kw):
        return f_clip(self, lo, hi)

    def __array_ufunc__(self, ufunc, method, *inputs, **kwargs):
        name = ufunc.__name__
        out = kwargs.pop('out', None)
        where = kwargs.pop('where', True)
        if where is not True:
            raise Unsupported('ufunc where=')
        if method == 'reduce' and name in ('add', 'logical_or', 'logical_and', 'minimum', 'maximum', 'bitwise_or'):
            fn = {'add': f_sum, 'logical_or': f_any, 'logical_and': f_all, 'minimum': f_min, 'maximum': f_max,
                  'bitwise_or': None}[name]
            if fn is None:
                raise Unsupported('bitwise_or.reduce')
            return fn(inputs[0], axis=kwargs.get('axis', 0))
        f = UFUNCS.get(name)
        if f is None or method != '__call__':
            raise Unsupported("ufunc %s.%s" % (name, method))
        if any(isinstance(i, Masked) for i in inputs):
            return masked_apply(f, name, inputs)
        ins = [_obj(i) if not isinstance(i, (list, tuple)) else np.array(i) for i in inputs]
        r = _elt(f, *ins)
        res = _wrap_ufunc_result(name, r, ins, inputs)
        if out is not None:
            o = out[0] if isinstance(out, tuple) else out
            o[...] = res
            return o
        return res

    def __array_function__(self, func, types, args, kwargs):
        f = FUNCS.get(func.__name__)
        if f is None:
            raise Unsupported("np.%s" % func.__name__)
        return f(*args, **kwargs)


LAZY = {'on': False}
PRED = ('isnan', 'isinf', 'isfinite', 'less', 'greater', 'less_equal', 'greater_equal', 'equal', 'not_equal',
        'logical_or', 'logical_and', 'logical_not', 'logical_xor', 'signbit')


def _in_kind(x):
    if isinstance(x, SymArray):
        return x.kind
    if isinstance(x, np.ndarray):
        return kind_of_dtype(x.dtype) if x.dtype != object else result_kind(x)
    return kind_of(x) if not isinstance(x, (list, tuple)) else kind_of_dtype(np.asarray(x).dtype)


def _wrap_ufunc_result(name, r, ins, inputs):
    if not isinstance(r, np.ndarray):
        return r
    if name in PRED:
        return SymArray(r, 'b')
    if r.size:
        k = result_kind(r)
    else:
        k = _in_kind(inputs[0])
    # array kinds dominate python scalars; compute from the declared input kinds for stability
    try:
        kinds = [_in_kind(i) for i in inputs]
        kk = kinds[0]
        for o in kinds[1:]:
            kk = promote(kk, o)
        if kk in ('pyint', 'pyfloat'):
            kk = 'i8' if kk == 'pyint' else 'f8'
        if name == 'true_divide' and kk not in FSORT and kk != 'x4':
            kk = 'f8'
        if name in ('sqrt',) and kk not in FSORT and kk != 'x4':
            kk = 'f8'
        if kk == 'b' and name in ('add', 'subtract', 'multiply'):
            kk = 'i8' if name != 'add' else 'b'
        k = kk
    except Unsupported:
        pass
    if k not in ('O',):
        r = _elt(lambda e: cast(e, k), r)
    return SymArray(r, k)


def masked_apply(f, name, inputs):
    mask = None; ins = []
    masks = [i.mask for i in inputs if isinstance(i, Masked)]
    if any(m is not masks[0] for m in masks) or any(isinstance(i, (SymArray, np.ndarray)) and np.ndim(i) > 0 for i in inputs):
        # not the pure "same selection" idiom: work on the materialised (compressed) arrays
        mats = [i.materialize() if isinstance(i, Masked) else i for i in inputs]
        r = _elt(f, *[_obj(m) for m in mats])
        return _wrap_ufunc_result(name, r, None, mats)
    for i in inputs:
        if isinstance(i, Masked):
            mask = i.mask; ins.append(i.full._a)
        else:
            ins.append(i)
    r = _elt(f, *ins)
    res = _wrap_ufunc_result(name, r, ins, [i.full if isinstance(i, Masked) else i for i in inputs])
    return Masked(res, mask)


def sand(a, b):
    if a is True:
        return b
    if b is True:
        return a
    if a is False or b is False:
        return False
    return binop('and', a, b)


def sor(a, b):
    if a is False:
        return b
    if b is False:
        return a
    if a is True or b is True:
        return True
    return binop('or', a, b)


def _mk_arr_binop(op):
    def f(a, b):
        if isinstance(a, Masked) or isinstance(b, Masked):
            return masked_apply(lambda x, y: binop(op, x, y), _UF_NAME.get(op, op), [a, b])
        if isinstance(b, (list, tuple)):
            b = np.array(b)
        r = _elt(lambda x, y: binop(op, x, y), a._a, _obj(b))
        return _wrap_ufunc_result(_UF_NAME.get(op, op), r, None, [a, b])

    def rf(a, b):
        if isinstance(b, (list, tuple)):
            b = np.array(b)
        r = _elt(lambda x, y: binop(op, y, x), a._a, _obj(b))
        return _wrap_ufunc_result(_UF_NAME.get(op, op), r, None, [b, a])
    return f, rf


_UF_NAME = {'add': 'add', 'sub': 'subtract', 'mul': 'multiply', 'truediv': 'true_divide', 'and': 'bitwise_and',
            'or': 'bitwise_or', 'xor': 'bitwise_xor', 'lt': 'less', 'le': 'less_equal', 'gt': 'greater', 'ge': 'greater_equal',
            'eq': 'equal', 'ne': 'not_equal', 'floordiv': 'floor_divide', 'mod': 'remainder', 'lshift': 'left_shift', 'rshift': 'right_shift'}
for _name in ('add', 'sub', 'mul', 'truediv', 'floordiv', 'mod', 'and', 'or', 'xor', 'lshift', 'rshift') + CMP:
    _f, _rf = _mk_arr_binop(_name)
    setattr(SymArray, '__%s__' % _name, _f)
    setattr(Masked, '__%s__' % _name, _f)
    if _name not in CMP:
        setattr(SymArray, '__r%s__' % _name, _rf)
        setattr(SymArray, '__i%s__' % _name, (lambda f: lambda a, b: _inplace(a, f(a, b)))(_f))


def _inplace(a, r):
    a._a[...] = _elt(lambda e: cast(e, a.kind), r._a)
    return a


SymArray.__neg__ = lambda a: SymArray(_elt(sneg, a._a), a.kind)
SymArray.__pos__ = lambda a: a
SymArray.__hash__ = None
SymArray.__abs__ = lambda a: SymArray(_elt(sabs, a._a), a.kind)
SymArray.__invert__ = lambda a: SymArray(_elt(sinvert, a._a), a.kind)
SymArray.__pow__ = lambda a, n: SymArray(_elt(lambda x: spow(x, n), a._a), a.kind if n != 0.5 else a.kind)


def _logical(op):
    def f(a, b):
        ta = a if kind_of(a) == 'b' else (a != 0)
        tb = b if kind_of(b) == 'b' else (b != 0)
        return binop(op, ta, tb)
    return f


UFUNCS = {'rint': srint, 'floor': sfloor, 'ceil': sceil, 'sqrt': ssqrt, 'exp': sexp,
          'add': lambda a, b: binop('add', a, b), 'subtract': lambda a, b: binop('sub', a, b),
          'multiply': lambda a, b: binop('mul', a, b), 'true_divide': lambda a, b: binop('truediv', a, b),
          'divide': lambda a, b: binop('truediv', a, b),
          'floor_divide': lambda a, b: binop('floordiv', a, b), 'remainder': lambda a, b: binop('mod', a, b),
          'isnan': isnan, 'isinf': isinf, 'isfinite': isfinite, 'absolute': sabs, 'fabs': sabs, 'negative': sneg,
          'positive': lambda a: a, 'square': lambda a: binop('mul', a, a),
          'less': lambda a, b: binop('lt', a, b), 'greater': lambda a, b: binop('gt', a, b),
          'less_equal': lambda a, b: binop('le', a, b), 'greater_equal': lambda a, b: binop('ge', a, b),
          'equal': lambda a, b: binop('eq', a, b), 'not_equal': lambda a, b: binop('ne', a, b),
          'bitwise_and': lambda a, b: binop('and', a, b), 'bitwise_or': lambda a, b: binop('or', a, b),
          'bitwise_xor': lambda a, b: binop('xor', a, b), 'invert': sinvert,
          'left_shift': lambda a, b: binop('lshift', a, b), 'right_shift': lambda a, b: binop('rshift', a, b),
          'logical_or': _logical('or'), 'logical_and': _logical('and'), 'logical_xor': _logical('xor'),
          'logical_not': snot,
          'minimum': lambda a, b: binop('min', a, b), 'maximum': lambda a, b: binop('max', a, b),
          'fmin': lambda a, b: ite(sor(isnan(b), sand(snot(isnan(a)), binop('lt', a, b))), a, b),
          'fmax': lambda a, b: ite(sor(isnan(b), sand(snot(isnan(a)), binop('gt', a, b))), a, b),
          'power': spow}


# ---------------------------------------------------------------- reductions etc.
def _axes(a, axis):
    if axis is None:
        return tuple(range(a.ndim))
    if isinstance(axis, (int, np.integer)):
        return (int(axis) % a.ndim,)
    return tuple(int(x) % a.ndim for x in axis)


def _reduce(op, arr, axis, kind=None, keepdims=False):
    """op: list of scalars -> scalar"""
    a = arr._a if isinstance(arr, SymArray) else np.asarray(arr, dtype=object)
    axes = _axes(a, axis)
    rest = [i for i in range(a.ndim) if i not in axes]
    t = a.transpose(rest + list(axes))
    lead = t.shape[:len(rest)]
    t = t.reshape(lead + (int(np.prod(t.shape[len(rest):], dtype=np.int64)),))
    out = np.empty(lead, dtype=object)
    for idx in np.ndindex(*lead):
        out[idx] = op(list(t[idx]))
    if out.ndim == 0 and not keepdims:
        return out[()]
    if keepdims:
        shp = [1 if i in axes else a.shape[i] for i in range(a.ndim)]
        out = out.reshape(shp)
    return SymArray(out, kind or (arr.kind if isinstance(arr, SymArray) else result_kind(out)))


def f_sum(arr, axis=None, dtype=None, keepdims=False, **kw):
    arr = as_symarray(arr)
    k = arr.kind
    if k == 'b' or (k[0] in 'iu' and bits(k) < 64):
        k = ('u8' if k[0] == 'u' else 'i8')     # numpy sums small ints in the platform int
    if dtype is not None:
        k = kind_of_dtype(dtype)

    def op(vals):
        if not vals:
            return cast(0, k)
        r = cast(vals[0], k)
        for v in vals[1:]:
            r = binop('add', r, cast(v, k))     # sequential; numpy pairwise summation differs only for floats
        return r
    if arr.kind in FSORT and arr.size and not arr.is_concrete():
        EX.notes.append('float-sum-order')       # caller must not rely on bit-exact float sums of > 8 elements
    return _reduce(op, arr, axis, kind=k, keepdims=keepdims)


def f_nansum(arr, axis=None, **kw):
    arr = as_symarray(arr)
    z = SymArray(_elt(lambda e: ite(isnan(e), cast(0, arr.kind), e), arr._a), arr.kind)
    return f_sum(z, axis=axis, **kw)


def f_mean(arr, axis=None, **kw):
    arr = as_symarray(arr)
    n = int(np.prod([arr.shape[i] for i in _axes(arr._a, axis)]))
    s = f_sum(arr, axis=axis, **kw)
    return s / n


def f_min(arr, axis=None, keepdims=False, **kw):
    arr = as_symarray(arr)

    def op(vals):
        r = vals[0]
        for v in vals[1:]:
            r = binop('min', r, v)
        return r
    return _reduce(op, arr, axis, keepdims=keepdims)


def f_max(arr, axis=None, keepdims=False, **kw):
    arr = as_symarray(arr)

    def op(vals):
        r = vals[0]
        for v in vals[1:]:
            r = binop('max', r, v)
        return r
    return _reduce(op, arr, axis, keepdims=keepdims)


def _nanext(opname):
    def impl(arr, axis=None, keepdims=False, **kw):
        arr = as_symarray(arr)

        def op(vals):
            r = vals[0]
            for v in vals[1:]:
                c = sor(isnan(r), sand(snot(isnan(v)), binop('lt' if opname == 'min' else 'gt', v, r)))
                r = ite(c, v, r)
            return r
        return _reduce(op, arr, axis, keepdims=keepdims)
    return impl


def f_any(arr, axis=None, keepdims=False, **kw):
    arr = as_symarray(arr)

    def op(vals):
        r = False
        for v in vals:
            r = sor(r, v if kind_of(v) == 'b' else (v != 0))
        return r
    return _reduce(op, arr, axis, kind='b', keepdims=keepdims)


def f_all(arr, axis=None, keepdims=False, **kw):
    arr = as_symarray(arr)

    def op(vals):
        r = True
        for v in vals:
            r = sand(r, v if kind_of(v) == 'b' else (v != 0))
        return r
    return _reduce(op, arr, axis, kind='b', keepdims=keepdims)


def f_argext(gt, nan_aware=False):
    def impl(arr, axis=None, **kw):
        arr = as_symarray(arr)

        def one(vals):
            best, bi = vals[0], 0
            for j in range(1, len(vals)):
                v = vals[j]
                better = binop('gt' if gt else 'lt', v, best)
                if not nan_aware:
                    # numpy: the first NaN wins
                    better = sand(sor(better, isnan(v)), snot(isnan(best)))
                else:
                    # nanargmin: NaNs are ignored (caller guarantees not all-NaN)
                    better = sor(sand(better, snot(isnan(v))), sand(isnan(best), snot(isnan(v))))
                best, bi = ite(better, v, best), ite(better, j, bi)
            return bi
        return _reduce(one, arr, axis, kind='i8')
    return impl


def f_where(cond, x=None, y=None):
    if any(isinstance(a, Masked) for a in (cond, x, y)):
        ms = [a.mask for a in (cond, x, y) if isinstance(a, Masked)]
        if not all(m is ms[0] for m in ms):
            raise Unsupported('np.where over different masked views')
        full = f_where(*[(a.full if isinstance(a, Masked) else a) for a in (cond, x, y)])
        return Masked(full, ms[0])
    if x is None:
        cond = as_symarray(cond)
        if cond.kind != 'b':
            cond = cond != 0
        if not cond.is_concrete():
            return tuple(NZ(cond, i) for i in range(cond.ndim))
        return np.nonzero(cond._a.astype(bool))
    ca = _obj(cond) if isinstance(cond, (SymArray, np.ndarray)) else np.asarray(cond)
    xa = _obj(x) if isinstance(x, (SymArray, np.ndarray)) else np.asarray(x)
    ya = _obj(y) if isinstance(y, (SymArray, np.ndarray)) else np.asarray(y)
    kx, ky = _in_kind(x if not isinstance(x, (list, tuple)) else np.asarray(x)), _in_kind(y if not isinstance(y, (list, tuple)) else np.asarray(y))
    k = promote(kx, ky)
    if k in ('pyint', 'pyfloat'):
        k = 'i8' if k == 'pyint' else 'f8'
    r = _elt(lambda c, a, b: cast(ite(c if kind_of(c) == 'b' else (c != 0), a, b), k), ca, xa, ya)
    return SymArray(r, k) if isinstance(r, np.ndarray) else r


def as_symarray(a):
    if isinstance(a, SymArray):
        return a
    if isinstance(a, Masked):
        return a.materialize()
    if isinstance(a, np.ndarray):
        if a.dtype == object:
            return SymArray(a, result_kind(a))
        return SymArray(a, kind_of_dtype(a.dtype))
    if isinstance(a, Sym):
        return SymArray(np.array(a, dtype=object).reshape(()), a.k)
    if isinstance(a, (list, tuple)):
        o = np.empty(len(a), dtype=object)
        if any(isinstance(e, (Sym,)) for e in a):
            for i, e in enumerate(a):
                o[i] = e
            return SymArray(o, result_kind(o))
        if any(isinstance(e, (SymArray, list, tuple, np.ndarray)) for e in a):
            parts = [as_symarray(e) for e in a]
            return SymArray(np.stack([p._a for p in parts]), parts[0].kind)
        arr = np.asarray(a)
        return SymArray(arr, kind_of_dtype(arr.dtype))
    arr = np.asarray(a)
    return SymArray(arr, kind_of_dtype(arr.dtype))


def f_clip(a, lo=None, hi=None, **kw):
    a = as_symarray(a)
    r = a
    if lo is not None:
        r = SymArray(_elt(lambda e, l: binop('max', e, l), r._a, _obj(lo)), a.kind)
    if hi is not None:
        r = SymArray(_elt(lambda e, h: binop('min', e, h), r._a, _obj(hi)), a.kind)
    return r


def sort_network(vals, lt=None):
    """sort a python list of scalars ascending (NaNs last, like numpy) with compare-exchange (odd-even transposition)"""
    v = list(vals); n = len(v)

    def less(a, b):
        # a strictly before b ; NaN is the largest
        return sor(sand(snot(isnan(a)), isnan(b)), binop('lt', a, b))
    for rnd in range(n):
        for i in range(rnd % 2, n - 1, 2):
            c = less(v[i + 1], v[i])
            v[i], v[i + 1] = ite(c, v[i + 1], v[i]), ite(c, v[i], v[i + 1])
    return v


def f_sort(a, axis=-1, **kw):
    a = as_symarray(a)
    if a.size > 64:
        raise Unsupported('sort of > 64 symbolic elements')
    t = np.moveaxis(a._a, axis, -1)
    out = np.empty(t.shape, dtype=object)
    for idx in np.ndindex(*t.shape[:-1]):
        out[idx] = sort_network(list(t[idx]))
    return SymArray(np.moveaxis(out, -1, axis), a.kind)


def f_argsort(a, axis=-1, kind=None, **kw):
    """stable ascending argsort (NaNs last) by an odd-even transposition network over (value, index) pairs"""
    a = as_symarray(a)
    if a.ndim != 1:
        raise Unsupported('argsort of a %d-d array' % a.ndim)
    v = list(a._a); idx = list(range(len(v))); n = len(v)
    if n > 32:
        raise Unsupported('argsort of > 32 symbolic elements')

    def less(x, y):
        return sor(sand(snot(isnan(x)), isnan(y)), binop('lt', x, y))
    for rnd in range(n):
        for i in range(rnd % 2, n - 1, 2):
            c = less(v[i + 1], v[i])
            v[i], v[i + 1] = ite(c, v[i + 1], v[i]), ite(c, v[i], v[i + 1])
            idx[i], idx[i + 1] = ite(c, idx[i + 1], idx[i]), ite(c, idx[i], idx[i + 1])
    o = np.empty(n, dtype=object)
    for i, e in enumerate(idx):
        o[i] = e if isinstance(e, Sym) else np.int64(e)
    return SymArray(o, result_kind(o, 'i8') if any(isinstance(e, Sym) for e in idx) else 'i8')


def _median_of(vals, nan_aware):
    """numpy median of a list (NaN -> NaN unless nan_aware: median of the non-NaN values, NaN if none)"""
    if nan_aware:
        # concretely-NaN entries never take part: drop them before building the network
        vals = [v for v in vals if not (not isinstance(v, Sym) and bool(np.isnan(v)))]
    n = len(vals)
    s = sort_network(vals)
    k = kind_of(vals[0]) if n else 'f8'
    if k not in FSORT and k != 'x4':
        k = 'f8'

    def med_of_first(m):
        if m == 0:
            return cast(float('nan'), k) if k != 'x4' else xconst(1, 0)
        if m % 2:
            return cast(s[m // 2], k)
        # numpy: mean of the two middle values = (a + b) / 2 computed in the array dtype
        return binop('truediv', binop('add', cast(s[m // 2 - 1], k), cast(s[m // 2], k)), cast(2.0, k) if k != 'x4' else 2.0)
    if not nan_aware:
        anyn = False
        for v in vals:
            anyn = sor(anyn, isnan(v))
        return ite(anyn, cast(float('nan'), k) if k != 'x4' else xconst(1, 0), med_of_first(n))
    # count of non-NaN values (they are sorted first)
    r = med_of_first(n)
    for m in range(n - 1, -1, -1):
        # exactly m valid values <=> s[m] is NaN and (m == 0 or s[m-1] not NaN)
        r = ite(isnan(s[m]), med_of_first(m), r)
    return r


def f_median(a, axis=None, nan_aware=False, **kw):
    a = as_symarray(a)
    k = a.kind if (a.kind in FSORT or a.kind == 'x4') else 'f8'
    return _reduce(lambda vals: _median_of(vals, nan_aware), a, axis, kind=k)


def f_cumsum(a, axis=None, dtype=None, **kw):
    a = as_symarray(a)
    k = a.kind if dtype is None else kind_of_dtype(dtype)
    if axis is None:
        a = a.ravel(); axis = 0
    t = np.moveaxis(a._a, axis, -1)
    out = np.empty(t.shape, dtype=object)
    for idx in np.ndindex(*t.shape[:-1]):
        acc = None
        for j in range(t.shape[-1]):
            e = cast(t[idx + (j,)], k)
            acc = e if acc is None else binop('add', acc, e)
            out[idx + (j,)] = acc
    return SymArray(np.moveaxis(out, -1, axis), k)


def f_argwhere(a):
    """indices of the non-zero elements: data-dependent shape -> the mask is concretised (forks per element)"""
    a = as_symarray(a)
    m = a if a.kind == 'b' else (a != 0)
    return np.argwhere(concretize_mask(m)) if not m.is_concrete() else np.argwhere(m._a.astype(bool))


def f_diff(a, n=1, axis=-1, **kw):
    a = as_symarray(a)
    if n != 1:
        raise Unsupported('np.diff n != 1')
    t = np.moveaxis(a._a, axis, -1)
    k = a.kind if a.kind != 'b' else 'i8'
    out = _elt(lambda x, y: binop('sub', cast(x, k), cast(y, k)), t[..., 1:], t[..., :-1])
    return SymArray(np.moveaxis(out, -1, axis), result_kind(out, k) if out.size else k)


def f_nanquantile(a, q, axis=None, **kw):
    if q in (0, 0.0):
        return _nanext('min')(a, axis=axis)
    if q in (1, 1.0):
        return _nanext('max')(a, axis=axis)
    raise Unsupported('nanquantile with q not in {0, 1}')


def f_quantile(a, q, axis=None, **kw):
    """NaN-propagating quantile for the extreme quantiles only (like np.min / np.max)"""
    if q in (0, 0.0):
        return f_min(a, axis=axis)
    if q in (1, 1.0):
        return f_max(a, axis=axis)
    raise Unsupported('quantile with q not in {0, 1}')


def f_nanmean(a, axis=None, **kw):
    a = as_symarray(a)

    def op(vals):
        tot = None; cnt = None
        for v in vals:
            isn = isnan(v)
            tv = ite(isn, cast(0, a.kind), v)
            cv_ = ite(isn, 0, 1) if isinstance(isn, Sym) else (0 if isn else 1)
            tot = tv if tot is None else binop('add', tot, tv)
            cnt = cv_ if cnt is None else binop('add', cnt, cv_)
        return binop('truediv', tot, cnt)
    return _reduce(op, a, axis)


def _shape_fn(npf):
    def f(a, *args, **kw):
        a = as_symarray(a)
        r = npf(a._a, *args, **kw)
        if isinstance(r, (list, tuple)):
            return [SymArray(x, a.kind) for x in r]
        return SymArray.wrap(r, a.kind)
    return f


def _join_fn(npf):
    def f(seq, *args, **kw):
        parts = [as_symarray(x) for x in seq]
        k = parts[0].kind
        for p in parts[1:]:
            k = promote(k, p.kind)
        r = npf([_elt(lambda e: cast(e, k), p._a.astype(object)) if p.size else p._a for p in parts], *args, **kw)
        return SymArray(r, k)
    return f


def f_full_like(a, v, dtype=None, **kw):
    k = a.kind if dtype is None else kind_of_dtype(dtype)
    o = np.empty(a.shape, dtype=object); o[...] = cast(v, k)
    return SymArray(o, k)


def f_nan_to_num(a, copy=True, nan=0.0, posinf=None, neginf=None):
    a = as_symarray(a)
    k = a.kind
    fi = np.finfo(np.float32 if k in ('x4', 'f4') else np.float64)
    posinf = float(fi.max) if posinf is None else posinf
    neginf = float(fi.min) if neginf is None else neginf

    def one(e):
        if not isinstance(e, Sym):
            with np.errstate(all='ignore'):
                return cast(np.nan_to_num(e, nan=nan, posinf=posinf, neginf=neginf), k) if k != 'x4' else np.float32(np.nan_to_num(np.float32(e), nan=nan, posinf=posinf, neginf=neginf))
        r = ite(isnan(e), cast(nan, k), e)
        r = ite(sand(isinf(e), binop('gt', e, 0)), cast(posinf, k), r)
        r = ite(sand(isinf(e), binop('lt', e, 0)), cast(neginf, k), r)
        return r
    out = _elt(one, a._a)
    if copy is False:
        a._a[...] = out          # in place (the caller ignores the return value)
        return a
    return SymArray(out, k)


def f_isin(a, test, **kw):
    a = as_symarray(a)
    tv = list(np.asarray(test).flat) if not isinstance(test, SymArray) else list(test._a.flat)

    def one(e):
        r = False
        for t in tv:
            r = sor(r, binop('eq', e, t))
        return r
    return SymArray(_elt(one, a._a), 'b')


def f_count_nonzero(a, axis=None, **kw):
    a = as_symarray(a)
    b = a if a.kind == 'b' else (a != 0)
    return f_sum(b.astype(np.int64), axis=axis)


def f_array_equal(a, b, **kw):
    a, b = as_symarray(a), as_symarray(b)
    if a.shape != b.shape:
        return False
    return f_all(a == b)


def f_pad(a, pad_width, mode='constant', constant_values=0, **kw):
    a = as_symarray(a)
    if mode != 'constant':
        raise Unsupported('np.pad mode %s' % mode)
    marker = object()
    r = np.pad(a._a, pad_width, mode='constant', constant_values=marker)
    cv = cast(constant_values, a.kind)
    r = _elt(lambda e: cv if e is marker else e, r)
    return SymArray(r, a.kind)


FUNCS = {'amax': f_max, 'max': f_max, 'amin': f_min, 'min': f_min, 'nanmin': _nanext('min'), 'nanmax': _nanext('max'),
         'sum': f_sum, 'nansum': f_nansum, 'mean': f_mean, 'any': f_any, 'all': f_all,
         'argmin': f_argext(False), 'argmax': f_argext(True), 'nanargmin': f_argext(False, True), 'nanargmax': f_argext(True, True),
         'where': f_where, 'nonzero': lambda a: f_where(a), 'clip': f_clip, 'sort': f_sort, 'argsort': f_argsort,
         'median': lambda a, axis=None, **k: f_median(a, axis, False), 'nanmedian': lambda a, axis=None, **k: f_median(a, axis, True),
         'argwhere': f_argwhere, 'diff': f_diff, 'nanquantile': f_nanquantile, 'quantile': f_quantile, 'nanmean': f_nanmean, 'cumsum': f_cumsum, 'nancumsum': lambda a, axis=None, **k: f_cumsum(SymArray(_elt(lambda e: ite(isnan(e), cast(0, as_symarray(a).kind), e), as_symarray(a)._a), as_symarray(a).kind), axis=axis, **k), 'copy': lambda a, **k: a.copy(), 'full_like': f_full_like,
         'zeros_like': lambda a, dtype=None, **k: f_full_like(a, 0, dtype), 'ones_like': lambda a, dtype=None, **k: f_full_like(a, 1, dtype),
         'empty_like': lambda a, dtype=None, **k: f_full_like(a, 0, dtype),
         'nan_to_num': f_nan_to_num, 'isin': f_isin, 'count_nonzero': f_count_nonzero, 'array_equal': f_array_equal, 'pad': f_pad,
         'swapaxes': _shape_fn(np.swapaxes), 'moveaxis': _shape_fn(np.moveaxis), 'transpose': _shape_fn(np.transpose),
         'reshape': _shape_fn(np.reshape), 'ravel': _shape_fn(np.ravel), 'squeeze': _shape_fn(np.squeeze),
         'expand_dims': _shape_fn(np.expand_dims), 'flip': _shape_fn(np.flip), 'fliplr': _shape_fn(np.fliplr), 'flipud': _shape_fn(np.flipud),
         'roll': _shape_fn(np.roll), 'tile': _shape_fn(np.tile), 'repeat': _shape_fn(np.repeat), 'broadcast_to': _shape_fn(np.broadcast_to),
         'array_split': _shape_fn(np.array_split), 'split': _shape_fn(np.split), 'atleast_1d': _shape_fn(np.atleast_1d),
         'atleast_2d': _shape_fn(np.atleast_2d), 'diagonal': _shape_fn(np.diagonal), 'take': None,
         'concatenate': _join_fn(np.concatenate), 'stack': _join_fn(np.stack), 'hstack': _join_fn(np.hstack),
         'vstack': _join_fn(np.vstack), 'dstack': _join_fn(np.dstack), 'column_stack': _join_fn(np.column_stack),
         'shape': lambda a: a.shape, 'ndim': lambda a: a.ndim, 'size': lambda a, axis=None: a.size if axis is None else a.shape[axis],
         'result_type': lambda *a: np.result_type(*[(x.dtype if isinstance(x, (SymArray, Sym)) else x) for x in a]),
         'may_share_memory': lambda a, b, **k: False, 'shares_memory': lambda a, b, **k: False,
         'isscalar': lambda a: False, 'iscomplexobj': lambda a: False, 'isrealobj': lambda a: True,
         'round': lambda a, decimals=0, **k: a.round(decimals), 'around': lambda a, decimals=0, **k: a.round(decimals),
         'absolute': lambda a: abs(a), 'array_repr': lambda a, *x, **k: repr(a), 'array_str': lambda a, *x, **k: repr(a),
         }
FUNCS = {k: v for k, v in FUNCS.items() if v is not None}


# ---------------------------------------------------------------- np proxy for pandora modules
class _StrideTricks:
    @staticmethod
    def as_strided(x, shape=None, strides=None, **kw):
        if isinstance(x, SymArray):
            # strides are given in bytes of the logical dtype; rescale to the object array's itemsize
            isz = np.dtype(dtype_of_kind(x.kind)).itemsize
            osz = x._a.itemsize
            st = None if strides is None else tuple(int(s) // isz * osz for s in strides)
            return SymArray(np.lib.stride_tricks.as_strided(x._a, shape, st, writeable=False), x.kind)
        return np.lib.stride_tricks.as_strided(x, shape, strides, **kw)

    @staticmethod
    def sliding_window_view(x, window_shape, axis=None, **kw):
        if isinstance(x, SymArray):
            return SymArray(np.lib.stride_tricks.sliding_window_view(x._a, window_shape, axis=axis), x.kind)
        return np.lib.stride_tricks.sliding_window_view(x, window_shape, axis=axis, **kw)


class _Lib:
    stride_tricks = _StrideTricks()

    def __getattr__(self, n):
        return getattr(np.lib, n)


class NPProxy:
    """stands in for the `np` global of a pandora module: array *creation* yields SymArrays holding concrete values,
    scalar functions accept Sym scalars, everything else is numpy itself (dispatching through the NEP-13/18 protocols)."""
    lib = _Lib()

    def __getattr__(self, n):
        f = getattr(np, n)
        if n in ('swapaxes', 'transpose', 'moveaxis', 'sum', 'reshape', 'ravel', 'squeeze', 'flip', 'amin', 'amax', 'min', 'max', 'mean', 'median',
                 'nanmedian', 'nansum', 'sort', 'argsort', 'any', 'all', 'cumsum', 'isnan', 'abs'):
            def w(a, *args, **kw):
                if isinstance(a, (list, tuple)) and _contains_sym(a):
                    a = as_symarray(a)
                if isinstance(a, NZ) and n in ('any', 'all') and not args and not kw:
                    # truth value of the index array np.where(mask)[axis]: "some / every selected element has a non-zero index"
                    m = a.mask._a if isinstance(a.mask, SymArray) else np.asarray(a.mask)
                    acc = (n == 'all')
                    for idx in np.ndindex(*m.shape):
                        sel = m[idx]
                        nz = idx[a.axis % m.ndim] != 0
                        if n == 'any':
                            if nz:
                                acc = sor(acc, sel)
                        elif not nz:
                            acc = sand(acc, snot(sel))
                    return acc
                return f(a, *args, **kw)
            return w
        return f

    class _RC:
        def __init__(self, axis):
            self.axis = axis

        def __getitem__(self, items):
            items = items if isinstance(items, tuple) else (items,)
            if any(isinstance(i, (SymArray, Sym)) for i in items):
                parts = [as_symarray(i) if not isinstance(i, SymArray) else i for i in items]
                if self.axis == -1:
                    parts = [p if p.ndim >= 2 else SymArray(p._a.reshape(-1, 1), p.kind) for p in parts]
                return _join_fn(np.concatenate)(parts, axis=self.axis)
            return (np.r_ if self.axis == 0 else np.c_)[items]

    r_ = _RC(0)
    c_ = _RC(-1)

    @staticmethod
    def _mk(a):
        if a.dtype.kind in 'USMm':          # strings / dates carry no symbolic data: plain numpy arrays
            return a
        return SymArray(a, kind_of_dtype(a.dtype))

    def zeros(self, shape, dtype=float, **k):
        return self._mk(np.zeros(shape, dtype=dtype))

    def ones(self, shape, dtype=float, **k):
        return self._mk(np.ones(shape, dtype=dtype))

    def empty(self, shape, dtype=float, **k):
        return self._mk(np.zeros(shape, dtype=dtype))

    def full(self, shape, v, dtype=None, **k):
        if isinstance(v, Sym):
            kk = v.k if dtype is None else kind_of_dtype(dtype)
            o = np.empty(shape, dtype=object); o[...] = cast(v, kk)
            return SymArray(o, kk)
        return self._mk(np.full(shape, v, dtype=dtype))

    def array(self, obj, dtype=None, **k):
        if isinstance(obj, SymArray):
            return obj.astype(dtype) if dtype is not None else obj.copy()
        if isinstance(obj, Sym):
            return obj if dtype is None else cast(obj, kind_of_dtype(dtype))
        if isinstance(obj, (list, tuple)) and _contains_sym(obj):
            r = as_symarray(obj)
            return r.astype(dtype) if dtype is not None else r
        return np.array(obj, dtype=dtype, **k)

    def asarray(self, obj, dtype=None, **k):
        if isinstance(obj, SymArray):
            # numpy returns the SAME array when the requested dtype is the array's (logical) dtype: aliasing matters (C18)
            if dtype is None or kind_of_dtype(dtype) == obj.kind or np.dtype(dtype) == np.dtype(dtype_of_kind(obj.kind)):
                return obj
            return obj.astype(dtype)
        return self.array(obj, dtype=dtype)

    def ascontiguousarray(self, obj, dtype=None, **k):
        return self.asarray(obj, dtype)

    def _scalar(name):
        def f(self, x, *a, **k):
            if isinstance(x, Sym):
                return UFUNCS[name](x, *a)
            if type(x).__name__ in ('SymInt', 'SymFloat'):
                from . import symscalar as SS
                if name == 'isnan':
                    return SS.isnan(x)
                if name in ('isinf', 'isfinite'):
                    if isinstance(x, SS.SymInt):
                        return name == 'isfinite'
                    t = z3.fpIsInf(x.t) if name == 'isinf' else z3.Not(z3.Or(z3.fpIsInf(x.t), z3.fpIsNaN(x.t)))
                    return mkbool(t)
                if name in ('abs', 'absolute'):
                    return abs(x)
                raise Unsupported('np.%s of a symbolic python scalar' % name)
            return getattr(np, name)(x, *a, **k)
        return f
    isnan = _scalar('isnan'); isinf = _scalar('isinf'); isfinite = _scalar('isfinite'); sqrt = _scalar('sqrt')
    rint = _scalar('rint'); floor = _scalar('floor'); ceil = _scalar('ceil'); abs = _scalar('absolute'); absolute = _scalar('absolute')
    fabs = _scalar('absolute')

    def minimum(self, a, b, **k):
        if isinstance(a, Sym) or isinstance(b, Sym):
            if not isinstance(a, (SymArray, np.ndarray)) and not isinstance(b, (SymArray, np.ndarray)):
                return binop('min', a, b)
        return np.minimum(a, b, **k)

    def maximum(self, a, b, **k):
        if isinstance(a, Sym) or isinstance(b, Sym):
            if not isinstance(a, (SymArray, np.ndarray)) and not isinstance(b, (SymArray, np.ndarray)):
                return binop('max', a, b)
        return np.maximum(a, b, **k)

    def copy(self, x, **k):
        return x.copy() if isinstance(x, SymArray) else np.copy(x)

    def ndenumerate(self, a):
        if isinstance(a, SymArray):
            return ((idx, a._a[idx]) for idx in np.ndindex(*a.shape))
        return np.ndenumerate(a)

    def repeat(self, a, repeats, axis=None):
        """always a SymArray (kernels store symbolic values into the repeated array afterwards)"""
        if isinstance(a, Sym):
            o = np.empty(int(repeats), dtype=object); o[...] = a
            return SymArray(o, a.k)
        if isinstance(a, SymArray):
            return SymArray(np.repeat(a._a, repeats, axis=axis), a.kind)
        r = np.repeat(a, repeats, axis=axis)
        return SymArray(r, kind_of_dtype(r.dtype)) if r.dtype != object else SymArray(r, result_kind(r))

    def float32(self, x=0):
        return cast(x, 'f4') if isinstance(x, Sym) else np.float32(x)

    def float64(self, x=0):
        return cast(x, 'f8') if isinstance(x, Sym) else np.float64(x)

    def int64(self, x=0):
        return cast(x, 'i8') if isinstance(x, Sym) else np.int64(x)

    def int32(self, x=0):
        return cast(x, 'i4') if isinstance(x, Sym) else np.int32(x)

    def where(self, c, *a):
        if isinstance(c, Sym):
            if a:
                if any(isinstance(x, (SymArray, np.ndarray)) for x in a):
                    return f_where(np.array(c, dtype=object).reshape(()), *a)
                return ite(c, a[0], a[1])
            raise Unsupported('np.where(scalar)')
        if isinstance(c, (SymArray, Masked)) or any(isinstance(x, (SymArray, Sym, Masked)) for x in a):
            return f_where(c, *a)
        return np.where(c, *a)


def _contains_sym(o):
    if isinstance(o, (Sym, SymArray)):
        return True
    if isinstance(o, (list, tuple)):
        return any(_contains_sym(e) for e in o)
    return False


# the float32/... type objects are also used as dtypes (np.float32 as argument): make the proxy attributes dtype-like
for _n in ('float32', 'float64', 'int64', 'int32'):
    _real = getattr(np, _n)

    class _T:
        def __init__(self, real, kind):
            self.real = real; self.kind = kind; self.__name__ = real.__name__

        def __call__(self, x=0):
            return cast(x, self.kind) if isinstance(x, Sym) else self.real(x)

        def __eq__(self, o):
            return o is self or o == self.real

        def __hash__(self):
            return hash(self.real)

        @property
        def dtype(self):
            return np.dtype(self.real)
    # numpy accepts objects with a .dtype attribute as dtype specifiers
    setattr(NPProxy, _n, _T(_real, kind_of_dtype(_real)))


# ---------------------------------------------------------------- fresh inputs
def _reg(name, idx, t):
    EX.inputs.setdefault(name, []).append((idx, t))


def fresh_scalar(name, kind):
    if kind == 'x4':
        iv = z3.Int(name)
        s = Sym(X(z3.IntVal(0), z3.ToReal(iv)), 'x4'); _reg(name, (), iv)
        return s
    t = z3.FP(name, FSORT[kind]) if kind in FSORT else (z3.Bool(name) if kind == 'b' else z3.BitVec(name, bits(kind)))
    _reg(name, (), t)
    return Sym(t, kind)


def fresh_array(name, shape, kind, tagged=False, scale=1, tags=(0, 1, 2, 3), real=False):
    """array of fresh symbolic scalars.  kind 'x4': finite samples n/scale with n a symbolic integer
    (tagged=True: symbolic tag among `tags` too: 0 finite, 1 NaN, 2 +inf, 3 -inf)"""
    a = np.empty(shape, dtype=object)
    for idx in np.ndindex(*shape):
        nm = name + '_' + '_'.join(map(str, idx))
        if kind == 'x4':
            if real:
                # real-valued sample (superset of the dyadic rationals): pure real arithmetic is much easier for the solver;
                # EX.real_inputs lets the collector ask for a float32-representable model when a query is sat
                iv = z3.Real(nm); val = iv
                EX.real_inputs.append(iv)
            else:
                iv = z3.Int(nm)
                val = z3.ToReal(iv) if scale == 1 else z3.ToReal(iv) / scale
            if tagged:
                tg = z3.Int(nm + '_t')
                EX.assume(z3.Or(*[tg == t for t in tags]))
                a[idx] = Sym(X(tg, z3.If(tg == 0, val, z3.RealVal(0))), 'x4')
                _reg(name, idx, (tg, iv, scale))
            else:
                a[idx] = Sym(X(z3.IntVal(0), val), 'x4')
                _reg(name, idx, (z3.IntVal(0), iv, scale))
            continue
        if kind == 'xi':
            iv = z3.Int(nm)
            a[idx] = Sym(iv, 'xi'); _reg(name, idx, iv)
            continue
        t = z3.FP(nm, FSORT[kind]) if kind in FSORT else (z3.Bool(nm) if kind == 'b' else z3.BitVec(nm, bits(kind)))
        a[idx] = Sym(t, kind)
        _reg(name, idx, t)
    return SymArray(a, kind)


def model_arrays(model_out, shapes_kinds):
    """solver child output -> {name: numpy array} ; shapes_kinds: name -> (shape, kind)"""
    from .explore import fp_from_raw
    res = {}
    vals = model_out.get('m', {})
    for name, (shape, kind) in shapes_kinds.items():
        dt = dtype_of_kind(kind)
        arr = np.zeros(shape, dtype=dt)
        for idx, raw in vals.get(name, []):
            if isinstance(raw, tuple) and raw[0] == 'x':
                tag, val = raw[1], raw[2]
                sc = raw[3] if len(raw) > 3 else 1
                if isinstance(val, tuple):
                    val = (val[1] / val[2]) if val[0] == 'q' else float('nan')
                v = {0: float(val) / sc, 1: float('nan'), 2: float('inf'), 3: float('-inf')}[tag]
            elif isinstance(raw, tuple):
                v = fp_from_raw(raw)
            else:
                v = raw
            if kind[0] == 'i' and isinstance(v, int) and v >= (1 << (bits(kind) - 1)):
                v -= (1 << bits(kind))
            arr[idx] = v
        res[name] = arr
    return res
