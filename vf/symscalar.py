"""Typed symbolic Python scalars for pure-Python configuration code (E1-scalar layer).

SymInt is a subclass of int and SymFloat a subclass of float, so that `isinstance(x, int)` / `isinstance(x, float)` tests of
json_checker schemas behave as for real values; every operator is overridden and works on a z3 term (Python int -> z3 Int,
unbounded like Python's; Python float -> z3 Float64, bit precise).  Truth tests fork through the explorer.
Anything that would silently use the (meaningless) underlying C value fails closed: __index__ raises Unsupported.
"""
import math
import z3
from .explore import EX, Unsupported
from . import symnp as S

RNE = z3.RNE()
F64 = z3.Float64()


def _b(t):
    return S.mkbool(t)


def _ival(x):
    """python number / SymInt -> z3 Int term or None"""
    if isinstance(x, SymInt):
        return x.t
    if isinstance(x, bool):
        return z3.IntVal(int(x))
    if isinstance(x, int):
        return z3.IntVal(x)
    return None


def _fval(x):
    """python number / SymInt / SymFloat -> z3 Float64 term or None"""
    if isinstance(x, SymFloat):
        return x.t
    if isinstance(x, SymInt):
        return z3.fpToFP(RNE, z3.ToReal(x.t), F64)
    if isinstance(x, (int, float)):
        return S.lift(float(x), 'f8')
    try:
        import numpy as np
        if isinstance(x, np.floating) or isinstance(x, np.integer):
            return S.lift(float(x), 'f8')
    except Exception:      # noqa
        pass
    return None


class SymInt(int):
    def __new__(cls, term):
        o = int.__new__(cls, 0)
        o.t = term
        return o

    def _bin(self, other, f, rev=False):
        if isinstance(other, (SymFloat, float)) and not isinstance(other, bool):
            a, b = _fval(self), _fval(other)
            return None, (b, a) if rev else (a, b)
        o = _ival(other)
        if o is None:
            return NotImplemented, None
        return (o, self.t) if rev else (self.t, o), None

    def _arith(self, other, iop, fop, rev=False):
        ints, floats = self._bin(other, None, rev)
        if ints is NotImplemented:
            return NotImplemented
        if floats is not None:
            return SymFloat(fop(*floats))
        return SymInt(z3.simplify(iop(*ints)))

    def __add__(self, o): return self._arith(o, lambda a, b: a + b, lambda a, b: z3.fpAdd(RNE, a, b))
    def __radd__(self, o): return self._arith(o, lambda a, b: a + b, lambda a, b: z3.fpAdd(RNE, a, b), True)
    def __sub__(self, o): return self._arith(o, lambda a, b: a - b, lambda a, b: z3.fpSub(RNE, a, b))
    def __rsub__(self, o): return self._arith(o, lambda a, b: a - b, lambda a, b: z3.fpSub(RNE, a, b), True)
    def __mul__(self, o): return self._arith(o, lambda a, b: a * b, lambda a, b: z3.fpMul(RNE, a, b))
    def __rmul__(self, o): return self._arith(o, lambda a, b: a * b, lambda a, b: z3.fpMul(RNE, a, b), True)

    def _divlike(self, other, kind, rev=False):
        ints, floats = self._bin(other, None, rev)
        if ints is NotImplemented:
            return NotImplemented
        if floats is not None:
            raise Unsupported('int %s float on symbolic values' % kind)
        a, b = ints
        if not bool(_b(b != 0)):
            raise ZeroDivisionError('integer division or modulo by zero')
        # python floor semantics; z3 Int division is euclidean (== floor for positive divisors): floor(a/b) == floor((-a)/(-b))
        fq = z3.If(b > 0, a / b, (-a) / (-b))
        if kind == 'floordiv':
            return SymInt(z3.simplify(fq))
        return SymInt(z3.simplify(a - b * fq))

    def __floordiv__(self, o): return self._divlike(o, 'floordiv')
    def __rfloordiv__(self, o): return self._divlike(o, 'floordiv', True)
    def __mod__(self, o): return self._divlike(o, 'mod')
    def __rmod__(self, o): return self._divlike(o, 'mod', True)

    def __truediv__(self, o):
        if isinstance(o, int) and not isinstance(o, (bool, SymInt)) and o > 0 and (o & (o - 1)) == 0 and o <= 1024:
            # int / 2^k: exact in float64 for |int| < 2^53 (harnesses bound their integers): keep the exact real value
            return SymFloat(None, r=z3.ToReal(self.t) / o)
        a, b = _fval(self), _fval(o)
        if b is None:
            return NotImplemented
        if isinstance(o, (int, SymInt)) and not bool(_b(_ival(o) != 0)):
            raise ZeroDivisionError('division by zero')
        if isinstance(o, (float, SymFloat)) and bool(_b(z3.fpIsZero(b))):
            raise ZeroDivisionError('float division by zero')
        return SymFloat(z3.fpDiv(RNE, a, b))

    def __rtruediv__(self, o):
        a, b = _fval(o), _fval(self)
        if a is None:
            return NotImplemented
        if not bool(_b(self.t != 0)):
            raise ZeroDivisionError('division by zero')
        return SymFloat(z3.fpDiv(RNE, a, b))

    def __pow__(self, n, mod=None):
        if isinstance(n, int) and not isinstance(n, SymInt) and 0 <= n <= 4 and mod is None:
            r = SymInt(z3.IntVal(1))
            for _ in range(n):
                r = r * self
            return r
        raise Unsupported('symbolic power')

    def __neg__(self): return SymInt(z3.simplify(-self.t))
    def __pos__(self): return self
    def __abs__(self): return SymInt(z3.simplify(z3.If(self.t < 0, -self.t, self.t)))

    def _cmp(self, o, iop, fop):
        if isinstance(o, (SymFloat, float)) and not isinstance(o, bool):
            return _b(fop(_fval(self), _fval(o)))
        v = _ival(o)
        if v is None:
            return NotImplemented
        return _b(iop(self.t, v))

    def __lt__(self, o): return self._cmp(o, lambda a, b: a < b, z3.fpLT)
    def __le__(self, o): return self._cmp(o, lambda a, b: a <= b, z3.fpLEQ)
    def __gt__(self, o): return self._cmp(o, lambda a, b: a > b, z3.fpGT)
    def __ge__(self, o): return self._cmp(o, lambda a, b: a >= b, z3.fpGEQ)

    def __eq__(self, o):
        r = self._cmp(o, lambda a, b: a == b, z3.fpEQ)
        return False if r is NotImplemented else r

    def __ne__(self, o):
        r = self._cmp(o, lambda a, b: a != b, lambda a, b: z3.Not(z3.fpEQ(a, b)))
        return True if r is NotImplemented else r

    def __hash__(self): return id(self)
    def __bool__(self): return bool(_b(self.t != 0))
    def __int__(self): return self
    def __float__(self): return SymFloat(_fval(self))
    def __index__(self): raise Unsupported('symbolic int used as a C-level index')
    def __trunc__(self): return self
    def __round__(self, nd=None): return self
    def __repr__(self): return '<symint %s>' % str(self.t)[:40]
    __str__ = __repr__
    def __format__(self, spec): return '<symint>'
    def __reduce__(self): raise Unsupported('pickling / deep-copying a symbolic value')
    def __deepcopy__(self, memo): return self
    def __copy__(self): return self


class SymFloat(float):
    """term: z3 Float64.  Optional exact flavour: r = z3 Real holding the exact value (used for int / 2^k of bounded ints,
    where float64 division is exact) -- then .t is derived lazily only when a bit-precise operation needs it."""
    def __new__(cls, term, r=None):
        o = float.__new__(cls, 0.0)
        o._t = term
        o.r = r
        return o

    @property
    def t(self):
        if self._t is None:
            self._t = z3.fpToFP(RNE, self.r, F64)
        return self._t

    def _rval(self, o):
        """exact real value of the other operand when both sides are exact (python dyadic constants, ints, exact floats)"""
        if self.r is None:
            return None
        if isinstance(o, SymFloat):
            return o.r
        if isinstance(o, SymInt):
            return z3.ToReal(o.t)
        if isinstance(o, bool):
            return None
        if isinstance(o, int):
            return z3.RealVal(o)
        if isinstance(o, float) and o == o and abs(o) != float('inf'):
            from fractions import Fraction
            fr = Fraction(o)
            if fr.denominator <= 1024:
                return z3.RealVal(str(fr))
        return None

    def _arith(self, o, f, rev=False, rf=None):
        rv = self._rval(o)
        if rv is not None and rf is not None:
            return SymFloat(None, r=z3.simplify(rf(rv, self.r) if rev else rf(self.r, rv)))
        b = _fval(o)
        if b is None:
            return NotImplemented
        return SymFloat(f(b, self.t) if rev else f(self.t, b))

    def __add__(self, o): return self._arith(o, lambda a, b: z3.fpAdd(RNE, a, b), rf=lambda a, b: a + b)
    def __radd__(self, o): return self._arith(o, lambda a, b: z3.fpAdd(RNE, a, b), True, rf=lambda a, b: a + b)
    def __sub__(self, o): return self._arith(o, lambda a, b: z3.fpSub(RNE, a, b), rf=lambda a, b: a - b)
    def __rsub__(self, o): return self._arith(o, lambda a, b: z3.fpSub(RNE, a, b), True, rf=lambda a, b: a - b)
    def __mul__(self, o): return self._arith(o, lambda a, b: z3.fpMul(RNE, a, b), rf=lambda a, b: a * b)
    def __rmul__(self, o): return self._arith(o, lambda a, b: z3.fpMul(RNE, a, b), True, rf=lambda a, b: a * b)

    def __truediv__(self, o):
        b = _fval(o)
        if b is None:
            return NotImplemented
        if bool(_b(z3.fpIsZero(b))):
            raise ZeroDivisionError('float division by zero')
        return SymFloat(z3.fpDiv(RNE, self.t, b))

    def __rtruediv__(self, o):
        a = _fval(o)
        if a is None:
            return NotImplemented
        if bool(_b(z3.fpIsZero(self.t))):
            raise ZeroDivisionError('float division by zero')
        return SymFloat(z3.fpDiv(RNE, a, self.t))

    def __neg__(self): return SymFloat(z3.fpNeg(self.t))
    def __pos__(self): return self
    def __abs__(self): return SymFloat(z3.fpAbs(self.t))

    def _cmp(self, o, f, rf=None):
        rv = self._rval(o)
        if rv is not None and rf is not None:
            return _b(rf(self.r, rv))
        b = _fval(o)
        if b is None:
            return NotImplemented
        return _b(f(self.t, b))

    def __lt__(self, o): return self._cmp(o, z3.fpLT, lambda a, b: a < b)
    def __le__(self, o): return self._cmp(o, z3.fpLEQ, lambda a, b: a <= b)
    def __gt__(self, o): return self._cmp(o, z3.fpGT, lambda a, b: a > b)
    def __ge__(self, o): return self._cmp(o, z3.fpGEQ, lambda a, b: a >= b)

    def __eq__(self, o):
        r = self._cmp(o, z3.fpEQ, lambda a, b: a == b)
        return False if r is NotImplemented else r

    def __ne__(self, o):
        r = self._cmp(o, lambda a, b: z3.Not(z3.fpEQ(a, b)), lambda a, b: a != b)
        return True if r is NotImplemented else r

    def __hash__(self): return id(self)
    def __bool__(self): return bool(_b(z3.Not(z3.fpIsZero(self.t))))
    def __float__(self): return self

    def __int__(self):
        # python int(float): truncation toward zero; NaN / inf raise
        if self.r is not None:
            return SymInt(z3.simplify(z3.If(self.r >= 0, z3.ToInt(self.r), -z3.ToInt(-self.r))))
        if bool(_b(z3.Or(z3.fpIsNaN(self.t), z3.fpIsInf(self.t)))):
            raise ValueError('cannot convert float NaN or infinity to integer')
        r = z3.fpToReal(z3.fpRoundToIntegral(z3.RTZ(), self.t))
        return SymInt(z3.ToInt(r))

    __trunc__ = __int__

    def __round__(self, nd=None):
        if nd is not None:
            raise Unsupported('round(x, n) on a symbolic float')
        if self.r is not None:
            fl = z3.ToInt(self.r); fr = self.r - z3.ToReal(fl)
            half = z3.RealVal('1/2')
            return SymInt(z3.simplify(z3.If(fr < half, fl, z3.If(fr > half, fl + 1, z3.If(fl % 2 == 0, fl, fl + 1)))))
        if bool(_b(z3.Or(z3.fpIsNaN(self.t), z3.fpIsInf(self.t)))):
            raise ValueError('cannot convert float NaN or infinity to integer')
        return SymInt(z3.ToInt(z3.fpToReal(z3.fpRoundToIntegral(RNE, self.t))))

    def is_integer(self):
        return _b(z3.And(z3.Not(z3.fpIsNaN(self.t)), z3.Not(z3.fpIsInf(self.t)), z3.fpEQ(z3.fpRoundToIntegral(z3.RTZ(), self.t), self.t)))

    def __repr__(self): return '<symfloat>'
    __str__ = __repr__
    def __format__(self, spec): return '<symfloat>'
    def __reduce__(self): raise Unsupported('pickling / deep-copying a symbolic value')
    def __deepcopy__(self, memo): return self
    def __copy__(self): return self


def isnan(x):
    if isinstance(x, SymFloat):
        return _b(z3.fpIsNaN(x.t))
    if isinstance(x, SymInt):
        return False
    return math.isnan(x)


def fresh_int(name, lo=None, hi=None):
    t = z3.Int(name)
    EX.inputs.setdefault(name, []).append(((), t))
    if lo is not None:
        EX.assume(t >= lo)
    if hi is not None:
        EX.assume(t <= hi)
    return SymInt(t)


def fresh_dyadic(name, den=8, lo=None, hi=None):
    """exact float n/den with n a symbolic integer (finite, float64-exact for bounded n): pure linear arithmetic"""
    n = z3.Int(name)
    EX.inputs.setdefault(name, []).append(((), (z3.IntVal(0), n, den)))
    if lo is not None:
        EX.assume(n >= lo * den)
    if hi is not None:
        EX.assume(n <= hi * den)
    return SymFloat(None, r=z3.ToReal(n) / den)


def fresh_float(name, finite=False):
    t = z3.FP(name, F64)
    EX.inputs.setdefault(name, []).append(((), t))
    if finite:
        EX.assume(z3.Not(z3.Or(z3.fpIsNaN(t), z3.fpIsInf(t))))
    return SymFloat(t)


def model_scalars(out, names):
    """solver child output -> {name: python value}"""
    from .explore import fp_from_raw
    res = {}
    for n in names:
        items = out.get('m', {}).get(n)
        if not items:
            continue
        raw = items[0][1]
        if isinstance(raw, tuple) and raw[0] == 'x':
            res[n] = float(raw[2]) / raw[3]
        else:
            res[n] = fp_from_raw(raw) if isinstance(raw, tuple) else raw
    return res
