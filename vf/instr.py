"""Import-time instrumentation of pandora.* for the E1 engine (regenerated from the working tree on every run).

Purely mechanical AST rewrite, semantics-preserving on concrete values:
  a[k]            -> __sym_getitem__(a, k)
  a[k] = v        -> __sym_setitem__(a, k, v)
  a[k] op= v      -> __sym_augitem__(a, k, 'Op', v)
  int/float/abs/min/max/round/bool(...)  (calls only)  -> __sym_<name>__(...)
  @njit functions get an outer decorator switching the engine to numba typing rules while they run
After import, the module globals `np` and `math` are rebound to proxies (array creation yields SymArrays).
"""
import ast, sys, os, builtins, hashlib, importlib.abc, importlib.machinery, importlib.util, math, operator, functools
import numpy as np
import z3
from . import symnp as S
from .explore import Unsupported

REPO = os.environ.get('VF_REPO', '/repo')
SOURCES = {}      # module name -> (path, sha1)

_CALLS = ('int', 'float', 'abs', 'min', 'max', 'round', 'bool')


def _slice_to_expr(n):
    if isinstance(n, ast.Slice):
        none = ast.Constant(None)
        return ast.Call(func=ast.Name('slice', ast.Load()),
                        args=[n.lower or none, n.upper or none, n.step or none], keywords=[])
    if isinstance(n, ast.Tuple):
        return ast.Tuple([_slice_to_expr(e) for e in n.elts], ast.Load())
    return n


class T(ast.NodeTransformer):
    def visit_Subscript(self, node):
        self.generic_visit(node)
        if isinstance(node.ctx, ast.Load):
            return ast.copy_location(ast.Call(func=ast.Name('__sym_getitem__', ast.Load()),
                                              args=[node.value, _slice_to_expr(node.slice)], keywords=[]), node)
        return node

    def visit_Call(self, node):
        self.generic_visit(node)
        if isinstance(node.func, ast.Name) and node.func.id in _CALLS:
            node.func = ast.copy_location(ast.Name('__sym_' + node.func.id + '__', ast.Load()), node.func)
        return node

    def visit_Assign(self, node):
        self.generic_visit(node)
        if len(node.targets) == 1 and isinstance(node.targets[0], ast.Subscript):
            t = node.targets[0]
            return ast.copy_location(ast.Expr(ast.Call(func=ast.Name('__sym_setitem__', ast.Load()),
                                                       args=[t.value, _slice_to_expr(t.slice), node.value], keywords=[])), node)
        return node

    def visit_AugAssign(self, node):
        self.generic_visit(node)
        if isinstance(node.target, ast.Subscript):
            t = node.target
            return ast.copy_location(ast.Expr(ast.Call(func=ast.Name('__sym_augitem__', ast.Load()),
                                                       args=[t.value, _slice_to_expr(t.slice), ast.Constant(type(node.op).__name__), node.value],
                                                       keywords=[])), node)
        return node

    def visit_UnaryOp(self, node):
        self.generic_visit(node)
        if isinstance(node.op, ast.Not):
            # `not x` would call bool(x) (a fork for symbolic x): keep it symbolic
            return ast.copy_location(ast.Call(func=ast.Name('__sym_not__', ast.Load()), args=[node.operand], keywords=[]), node)
        return node

    def visit_If(self, node):
        """if-conversion of straight-line two-armed assignments: `if c: T = a` / `else: T = b` (same target T, simple value
        expressions) becomes, for a *symbolic* c only, T = ite(c, a, b); concrete conditions keep the original statement"""
        self.generic_visit(node)
        try:
            if len(node.body) == 1 and len(node.orelse) == 1:
                b, o = node.body[0], node.orelse[0]
                tb, vb = _assign_parts(b); to, vo = _assign_parts(o)
                if tb is not None and to is not None and ast.dump(tb) == ast.dump(to) and _simple(vb) and _simple(vo):
                    tmp = ast.Name('__sym_cond_tmp__', ast.Store())
                    load = lambda: ast.Name('__sym_cond_tmp__', ast.Load())
                    ite_val = ast.Call(func=ast.Name('__sym_ite__', ast.Load()), args=[load(), vb, vo], keywords=[])
                    merged = _make_assign(b, ite_val)
                    orig = ast.If(test=load(), body=node.body, orelse=node.orelse)
                    new = [ast.Assign(targets=[tmp], value=node.test),
                           ast.If(test=ast.Call(func=ast.Name('__sym_isconc__', ast.Load()), args=[load()], keywords=[]), body=[orig], orelse=[merged])]
                    return [ast.copy_location(n, node) for n in new]
        except Exception:      # noqa: any doubt -> leave the statement alone
            pass
        return node

    def visit_FunctionDef(self, node):
        self.generic_visit(node)
        for i, d in enumerate(node.decorator_list):
            src = ast.unparse(d)
            if 'njit' in src or 'jit(' in src:
                # directly around the jit decorator (staticmethod/abstractmethod stay outermost)
                node.decorator_list.insert(i, ast.Name('__sym_njit__', ast.Load()))
                break
        return node

    def visit_Annotation(self, node):
        return node


def _assign_parts(stmt):
    """(target expr, value expr) of `T = v`, or of the already rewritten `__sym_setitem__(a, k, v)`; else (None, None)"""
    if isinstance(stmt, ast.Assign) and len(stmt.targets) == 1 and isinstance(stmt.targets[0], ast.Name):
        return stmt.targets[0], stmt.value
    if isinstance(stmt, ast.Expr) and isinstance(stmt.value, ast.Call) and isinstance(stmt.value.func, ast.Name) \
            and stmt.value.func.id == '__sym_setitem__':
        a, k, v = stmt.value.args
        return ast.Tuple([a, k], ast.Load()), v
    return None, None


def _make_assign(like, value):
    if isinstance(like, ast.Assign):
        return ast.Assign(targets=[ast.Name(like.targets[0].id, ast.Store())], value=value)
    a, k, _ = like.value.args
    return ast.Expr(ast.Call(func=ast.Name('__sym_setitem__', ast.Load()), args=[a, k, value], keywords=[]))


def _simple(e):
    """value expressions safe to evaluate on both arms: names, constants, arithmetic, subscripts (already helper calls),
    attribute reads; no other calls"""
    for n in ast.walk(e):
        if isinstance(n, ast.Call):
            f = n.func
            if not (isinstance(f, ast.Name) and f.id in ('__sym_getitem__', '__sym_int__', '__sym_float__', '__sym_abs__', '__sym_min__', '__sym_max__')):
                return False
        if isinstance(n, (ast.Lambda, ast.Yield, ast.Await, ast.NamedExpr, ast.ListComp, ast.GeneratorExp)):
            return False
    return True


def has_sym(k):
    if isinstance(k, (S.Sym, S.SymArray, S.NZ, S.Masked)):
        return True
    if isinstance(k, (tuple, list)):
        return any(has_sym(x) for x in k)
    return False


# ---- access recorder for the parallel-loop (prange) race check of C18 -------------------------------------------------------------
# While RACE['iter'] is set (inside one iteration of the OUTERMOST prange loop, the one numba distributes over threads), every
# subscript read / write of an array is recorded as (memory cell, iteration).  Two different iterations touching the same cell with
# at least one write is a data race: the result depends on the thread schedule.  Cells are byte addresses of the underlying buffers
# (views resolve to the same addresses); buffers are kept alive while recording so that addresses are not reused.
RACE = {'iter': None, 'depth': 0, 'reads': {}, 'writes': {}, 'keep': [], 'on': False}


def race_reset():
    RACE.update(iter=None, depth=0, reads={}, writes={}, keep=[], on=True, addr={})


def _cells(a, k):
    nd = a._a if isinstance(a, S.SymArray) else a
    if not isinstance(nd, np.ndarray) or nd.ndim == 0:
        return None
    if has_sym(k):
        return None
    try:
        cache = RACE.setdefault('addr', {})
        addr = cache.get(id(nd))
        if addr is None:
            addr = np.full(nd.shape, nd.__array_interface__['data'][0], dtype=np.int64)
            for ax, (n_, st_) in enumerate(zip(nd.shape, nd.strides)):
                shp = [1] * nd.ndim; shp[ax] = n_
                addr = addr + (np.arange(n_, dtype=np.int64) * st_).reshape(shp)
            cache[id(nd)] = addr
            RACE['keep'].append(nd)         # keeps the buffer (and its id) alive while recording
        sel = addr[k]
    except Exception:       # noqa: unusual index forms are not tracked
        return None
    return [int(sel)] if np.ndim(sel) == 0 else np.asarray(sel).ravel().tolist()


def _record(a, k, kind):
    it = RACE['iter']
    if it is None or not RACE['on']:
        return
    cells = _cells(a, k)
    if not cells:
        return
    tab = RACE['writes'] if kind == 'w' else RACE['reads']
    for c in cells:
        tab.setdefault(c, set()).add(it)


def race_conflicts():
    """cells written by one iteration and read or written by another one"""
    out = []
    for c, ws in RACE['writes'].items():
        others = (RACE['reads'].get(c, set()) | ws)
        if len(ws) > 1 or len(others - ws) > 0:
            out.append((c, sorted(ws), sorted(others)))
    return out


def gi(a, k):
    if RACE['iter'] is not None:
        _record(a, k, 'r')
    if isinstance(a, np.ndarray) and a.dtype != object and has_sym(k):
        a = S.SymArray(a, S.kind_of_dtype(a.dtype))
    elif isinstance(a, (list, tuple)) and isinstance(k, S.Sym):
        o = np.empty(len(a), dtype=object)
        for i, e in enumerate(a):
            o[i] = e
        return S.SymArray(o, S.result_kind(o))[k]
    return a[k]


def si(a, k, v):
    if RACE['iter'] is not None:
        _record(a, k, 'w')
    if isinstance(a, np.ndarray) and a.dtype != object and (has_sym(k) or isinstance(v, (S.Sym, S.SymArray, S.Masked))):
        raise Unsupported('store of a symbolic value into a real ndarray (array created outside the instrumented modules)')
    a[k] = v


OPS = {'Add': operator.add, 'Sub': operator.sub, 'Mult': operator.mul, 'Div': operator.truediv, 'BitOr': operator.or_,
       'BitAnd': operator.and_, 'BitXor': operator.xor, 'FloorDiv': operator.floordiv, 'Mod': operator.mod,
       'LShift': operator.lshift, 'RShift': operator.rshift, 'Pow': operator.pow}


def ai(a, k, op, v):
    if RACE['iter'] is not None:
        _record(a, k, 'r'); _record(a, k, 'w')
    if isinstance(k, tuple) and k and all(isinstance(x, S.NZ) for x in k):
        if not isinstance(a, S.SymArray):
            raise Unsupported('augmented store through a symbolic mask into a real ndarray')
        if isinstance(v, S.Masked):
            v = v.full          # same selection on both sides: the operation is applied cell-wise, the mask keeps the rest
        full = OPS[op](a, v)
        a[k[0].mask] = full
        return
    if isinstance(k, S.SymArray) and k.kind == 'b' and not k.is_concrete():
        if isinstance(v, S.Masked):
            v = v.full
        full = OPS[op](a, v)
        a[k] = full
        return
    cur = gi(a, k)
    si(a, k, OPS[op](cur, v))


def _nary(op, py):
    def f(*a, **kw):
        if kw or len(a) == 1:
            if len(a) == 1 and isinstance(a[0], (list, tuple)) and any(isinstance(e, S.Sym) for e in a[0]):
                a = tuple(a[0])
            else:
                return py(*a, **kw)
        r = a[0]
        for v in a[1:]:
            if isinstance(r, S.Sym) or isinstance(v, S.Sym):
                # python min/max: returns the first argument on ties, comparisons with NaN are False
                c = S.binop('lt', v, r) if op == 'min' else S.binop('gt', v, r)
                if FLAGS['fork_minmax']:
                    r = v if bool(c) else r          # fork: keeps e.g. arm lengths concrete on each path
                else:
                    r = S.ite(c, v, r)
            else:
                r = py(r, v)
        return r
    return f


def _int(x=0, *a):
    # python converts the result of __int__ to an exact int (losing a symbolic proxy): dispatch explicitly
    tn = type(x).__name__
    if tn == 'SymInt':
        return x
    if tn == 'SymFloat':
        return x.__int__()
    if isinstance(x, S.Sym):
        if x.k in ('x4', 'xi'):
            r = S.cast(x, 'xi')
            # an integer that the path condition forces to a single value is that value (needed where the code builds
            # ranges / shapes from e.g. the global minimum of a per-pixel grid)
            from .explore import EX
            t = z3.simplify(r.t)
            if z3.is_int_value(t):
                return t.as_long()
            v = EX.unique_value(t)
            return r if v is None else v
        return S.cast(x, 'i8')
    return int(x, *a)


def _float(x=0.0):
    tn = type(x).__name__
    if tn == 'SymFloat':
        return x
    if tn == 'SymInt':
        return x.__float__()
    if isinstance(x, S.Sym):
        return x if x.k in ('f8', 'x4') else S.cast(x, 'f8')
    return float(x)


def _round(x, nd=None):
    if type(x).__name__ in ('SymInt', 'SymFloat'):
        return x.__round__(nd)
    if isinstance(x, S.Sym):
        if nd is not None:
            raise Unsupported('round(x, ndigits) on a symbolic value')
        return S.cast(S.srint(x), 'i8')
    return round(x) if nd is None else round(x, nd)


def _bool(x=False):
    if isinstance(x, S.Sym):
        return x if x.k == 'b' else (x != 0)
    return bool(x)


def _njit_wrap(f):
    if not callable(f):
        return f

    @functools.wraps(f)
    def w(*a, **k):
        old = S.MODE['numba']
        S.MODE['numba'] = True
        try:
            return f(*a, **k)
        finally:
            S.MODE['numba'] = old
    w.__wrapped_py__ = f
    return w


FLAGS = {'fork_minmax': False}


def _ite(c, a, b):
    return S.ite(c, a, b)


def _isconc(c):
    return not isinstance(c, S.Sym)


builtins.__sym_not__ = lambda x: S.snot(x) if isinstance(x, S.Sym) else (not x)
builtins.__sym_ite__ = _ite
builtins.__sym_isconc__ = _isconc
builtins.__sym_int__ = _int
builtins.__sym_float__ = _float
builtins.__sym_abs__ = lambda x: S.sabs(x) if isinstance(x, S.Sym) else abs(x)
builtins.__sym_max__ = _nary('max', max)
builtins.__sym_min__ = _nary('min', min)
builtins.__sym_round__ = _round
builtins.__sym_bool__ = _bool
builtins.__sym_getitem__ = gi
builtins.__sym_setitem__ = si
builtins.__sym_augitem__ = ai
builtins.__sym_njit__ = _njit_wrap


class MathProxy:
    def __getattr__(self, n):
        return getattr(math, n)

    @staticmethod
    def floor(x):
        return S.cast(S.sfloor(x), 'i8') if isinstance(x, S.Sym) else math.floor(x)

    @staticmethod
    def ceil(x):
        return S.cast(S.sceil(x), 'i8') if isinstance(x, S.Sym) else math.ceil(x)

    @staticmethod
    def sqrt(x):
        return S.ssqrt(x) if isinstance(x, S.Sym) else math.sqrt(x)

    @staticmethod
    def isnan(x):
        return S.isnan(x) if isinstance(x, S.Sym) else math.isnan(x)

    @staticmethod
    def fabs(x):
        return S.sabs(x) if isinstance(x, S.Sym) else math.fabs(x)


NP = S.NPProxy()
MATH = MathProxy()


class Finder(importlib.abc.MetaPathFinder, importlib.abc.Loader):
    def __init__(self, prefix='pandora', root=None):
        self.prefix = prefix; self.root = root or REPO

    def find_spec(self, name, path, target=None):
        if not (name == self.prefix or name.startswith(self.prefix + '.')):
            return None
        rel = name.replace('.', '/')
        pkg = os.path.join(self.root, rel, '__init__.py')
        mod = os.path.join(self.root, rel + '.py')
        if os.path.isfile(pkg):
            return importlib.util.spec_from_file_location(name, pkg, loader=self, submodule_search_locations=[os.path.dirname(pkg)])
        if os.path.isfile(mod):
            return importlib.util.spec_from_file_location(name, mod, loader=self)
        return None

    def create_module(self, spec):
        return None

    def exec_module(self, module):
        path = module.__spec__.origin
        src = open(path).read()
        SOURCES[module.__name__] = (path, hashlib.sha1(src.encode()).hexdigest())
        tree = T().visit(ast.parse(src))
        ast.fix_missing_locations(tree)
        exec(compile(tree, path, 'exec'), module.__dict__)
        if module.__dict__.get('np') is np:
            module.__dict__['np'] = NP
        if module.__dict__.get('math') is math:
            module.__dict__['math'] = MATH


_installed = []


def install(root=None):
    if _installed:
        return
    os.environ.setdefault('NUMBA_DISABLE_JIT', '1')
    f = Finder(root=root)
    sys.meta_path.insert(0, f)
    _installed.append(f)


def plain_repo_on_path(root=None):
    """for replay workers: import the *uninstrumented* package from the chosen tree"""
    root = root or REPO
    if root not in sys.path:
        sys.path.insert(0, root)


def fn_hash(*fns):
    import inspect
    out = {}
    for f in fns:
        g = getattr(f, '__wrapped_py__', f)
        g = getattr(g, 'py_func', g)
        try:
            src = inspect.getsource(g)
            out['%s.%s' % (g.__module__, g.__qualname__)] = hashlib.sha1(src.encode()).hexdigest()[:12]
        except (OSError, TypeError):
            out[repr(f)] = 'unavailable'
    return out
