"""vcheck driver: vcheck <ID> [--tier quick|thorough] | vcheck --replay <file>"""
import sys, os, json, argparse, importlib


def main():
    ap = argparse.ArgumentParser()
    ap.add_argument('prop', nargs='?')
    ap.add_argument('--tier', default=os.environ.get('VERIF_TIER', 'quick'))
    ap.add_argument('--replay')
    ap.add_argument('--only', default=None, help='comma-separated harness name filter (development aid)')
    a = ap.parse_args()
    seed = int(os.environ.get('VERIF_SEED', '0') or 0)
    from vf.common import Ctx
    if a.replay:
        body = json.load(open(a.replay))
        prop = body['property']
        m = importlib.import_module('vf.checks.%s' % prop.lower())
        sys.exit(m.replay(body))
    prop = a.prop.upper()
    m = importlib.import_module('vf.checks.%s' % prop.lower())
    ctx = Ctx(prop, a.tier if a.tier in ('quick', 'thorough') else 'quick', seed)
    ctx.only = a.only.split(',') if a.only else None
    try:
        m.main(ctx)
    except Exception as e:       # driver bug: never report success
        import traceback; traceback.print_exc()
        ctx.harness_errors.append('driver exception %r' % (e,))
    sys.exit(ctx.finish())


if __name__ == '__main__':
    main()
