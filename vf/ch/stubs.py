"""pure-Python stand-ins used by the CrossHair harnesses (no numpy/xarray: CrossHair realises symbolic values at C boundaries)"""
import warnings, logging
warnings.filterwarnings("ignore"); logging.disable(logging.CRITICAL)
# formatting gets an empty body: json_checker builds error messages with %-formatting, which makes CrossHair realise
# the symbolic value once per concrete value
import json_checker.core.checkers as _jc
_jc.format_data = lambda *a, **k: "x"
_jc.format_error_message = lambda *a, **k: "x"
try:
    import json_checker.core.reports as _jr     # noqa
except Exception:      # noqa
    _jr = None


class _Band:
    def __init__(self, data):
        self.data = data


class Img:
    """image dataset stand-in: the attributes PandoraMachine.check_conf touches"""
    def __init__(self, rows=64, cols=64, bands=(None,), disparity_source=(-2, 2), classif_bands=None, has_disp=True):
        self.sizes = {"row": rows, "col": cols}
        self.attrs = {"disparity_source": list(disparity_source) if disparity_source is not None else None}
        self.coords = {"band_im": _Band(list(bands))}
        if classif_bands is not None:
            self.coords["band_classif"] = _Band(list(classif_bands))
        self.data_vars = {"im": None}
        if has_disp:
            self.data_vars["disparity"] = None
