"""C20 CrossHair harnesses: margins as a pure, monotone function of the checked pipeline (real PandoraMachine.check_conf,
real step classes, symbolic integer parameters)."""
from vf.ch.stubs import Img
from pandora.state_machine import PandoraMachine
from pandora.margins import Margins, GlobalMargins, max_margins
from pandora.filter import AbstractFilter
from pandora import matching_cost


def _uniform(v):
    return {"left": v, "up": v, "right": v, "down": v}


def _pipeline_margins(half: int, fs: int, fs2: int, with_validation: bool) -> bool:
    """
    pre: 0 <= half <= 20 and 0 <= fs <= 12 and 0 <= fs2 <= 12
    post: _
    """
    ws = 2 * half + 1; f1 = 2 * fs + 1; f2 = 2 * fs2 + 1
    pipe = {"matching_cost": {"matching_cost_method": "sad", "window_size": ws},
            "disparity": {"disparity_method": "wta"},
            "refinement": {"refinement_method": "vfit"},
            "filter": {"filter_method": "median", "filter_size": f1},
            "filter.1": {"filter_method": "median", "filter_size": f2}}
    if with_validation:
        pipe["validation"] = {"validation_method": "cross_checking_accurate"}
    m = PandoraMachine()
    m.check_conf({"pipeline": pipe}, Img(), Img(disparity_source=None, has_disp=False))
    d = m.margins.to_dict()
    cum = half
    exp_global = max(cum, f1, f2)
    return (d["cumulative margins"] == {"matching_cost": _uniform(half), "disparity": _uniform(0), "refinement": _uniform(0)}
            and d["non-cumulative margins"] == {"filter": _uniform(f1), "filter.1": _uniform(f2)}
            and d["global margins"] == _uniform(exp_global)
            and list(d["non-cumulative margins"]) == ["filter", "filter.1"])


def _global_is_max_of_sum_and_each(a: int, b: int, c: int, n1: int, n2: int) -> bool:
    """
    pre: 0 <= a <= 1000 and 0 <= b <= 1000 and 0 <= c <= 1000 and 0 <= n1 <= 1000 and 0 <= n2 <= 1000
    post: _
    """
    g = GlobalMargins()
    g.add_cumulative("s1", Margins(a, b, c, a)); g.add_cumulative("s2", Margins(b, c, a, b))
    g.add_non_cumulative("f1", Margins(n1, n1, n2, n2)); g.add_non_cumulative("f2", Margins(n2, n1, n2, n1))
    m = g.global_margins
    before = (m.left, m.up, m.right, m.down)
    ok = before == (max(a + b, n1, n2), max(b + c, n1, n1), max(c + a, n2, n2), max(a + b, n2, n1))
    # monotone: adding a step never lowers any side
    g.add_cumulative("s3", Margins(c, 0, 0, c))
    m2 = g.global_margins
    return ok and m2.left >= m.left and m2.up >= m.up and m2.right >= m.right and m2.down >= m.down and min(before) >= 0


def _median_margin_is_filter_size_times_step(fs: int, step: int) -> bool:
    """
    pre: 0 <= fs <= 50 and 1 <= step <= 16
    post: _
    """
    f = AbstractFilter(cfg={"filter_method": "median", "filter_size": 2 * fs + 1}, step=step)
    v = (2 * fs + 1) * step
    f2 = AbstractFilter(cfg={"filter_method": "median_for_intervals", "filter_size": 2 * fs + 1}, step=step)
    return f.margins == Margins(v, v, v, v) and f2.margins == Margins(v, v, v, v)


def _half_window_margin(half: int) -> bool:
    """
    pre: 0 <= half <= 200
    post: _
    """
    m = matching_cost.AbstractMatchingCost(**{"matching_cost_method": "ssd", "window_size": 2 * half + 1})
    return m.margins == Margins(half, half, half, half)


def _negative_margins_refused(a: int, b: int) -> bool:
    """
    pre: -100 <= a <= 100 and -100 <= b <= 100
    post: _
    """
    try:
        Margins(a, b, a, b)
    except ValueError:
        return a < 0 or b < 0
    return a >= 0 and b >= 0
