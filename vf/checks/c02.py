"""C02: cost volume == configured measure, NaN exactly where not computable (SAD / SSD / census, subpix 1, 2, 4)."""
MOD = 'vf.harness.c02'
KF = 'KF-C02-interval-beyond-image-width'


def cfgs(ctx, for_prop='C02'):
    J = []
    cap = 60 if ctx.quick else 300

    def cvj(**kw):
        kw['cap'] = cap
        J.append({'mod': MOD, 'fn': 'cost_volume', 'mode': 'sym', 'args': kw})
    cvj(); cvj(masks=False, dmin=-2, dmax=0); cvj(method='ssd', ws=1, H=2, W=4); cvj(method='census', masks=False, H=3, W=5)
    cvj(grids=True, masks=False); cvj(ws=1, H=2, W=4, dmin=0, dmax=2); cvj(col0=3, masks=False)
    cvj(grids='frac', masks=True, H=3, W=5, dmin=-2, dmax=1)       # non-integer grid values (half samples)
    cvj(bands=['r', 'g'], band='g', masks=False, H=3, W=5)
    cvj(bands=['r', 'g'], rbands=['g', 'r'], band='g', masks=False, H=3, W=5, method='census')     # band order differs between the images
    cvj(bands=['r', 'g'], rbands=['g', 'r'], band='r', masks=False, H=3, W=4, dmin=0, dmax=1)
    cvj(lcodes=[0, 1], rcodes=[3, 2], ws=3, H=3, W=5, dmin=-1, dmax=0)      # the two images use different mask codes
    cvj(masks=False, W=5, H=3, dmin=-4, dmax=4)          # interval reaching the image width: every cost NaN there, no exception
    cvj(dmin=-2, dmax=-1, masks=False); cvj(dmin=1, dmax=2, masks=False)      # strictly negative / strictly positive intervals
    if not ctx.quick:
        cvj(method='census', ws=3, H=3, W=6, masks=True); cvj(method='census', ws=5, H=5, W=6, masks=False, dmin=0, dmax=0)
        cvj(method='ssd', ws=3, H=3, W=6); cvj(ws=3, H=4, W=7, dmin=-3, dmax=3); cvj(ws=5, H=5, W=7, dmin=-1, dmax=1, masks=False)
        cvj(grids=True, masks=True, H=3, W=6, dmin=-2, dmax=2); cvj(method='census', grids=True, masks=False, H=3, W=6)
        cvj(col0=7, masks=True, dmin=1, dmax=2); cvj(dmin=-3, dmax=-1); cvj(dmin=1, dmax=3)
        cvj(bands=['r', 'g'], band='r', masks=True, H=3, W=5)
    return J


def main(ctx):
    ctx.level = 'other'
    J = cfgs(ctx)
    # known finding: an interval that reaches beyond the image width raises instead of giving NaN costs
    if KF in ctx.known_ids:
        for kw in (dict(masks=False, W=4, H=3, dmin=2, dmax=6), dict(method='census', masks=False, H=3, W=5, dmin=-4, dmax=0)):
            J.append({'mod': MOD, 'fn': 'cost_volume', 'mode': 'sym', 'args': dict(kw, cap=60, block=[KF], known_config=True)})
    # sub-pixel precision: costs against the linearly interpolated right image
    cap = 120 if ctx.quick else 600
    sub = [dict(method='sad', subpix=2), dict(method='census', subpix=2), dict(method='ssd', subpix=2, H=3, W=4, dmin=0, dmax=1),
           dict(method='sad', subpix=4, W=6, dmin=-2, dmax=1), dict(method='sad', subpix=2, ws=1, H=1, W=5),
           dict(method='census', subpix=4, W=5, dmin=-1, dmax=0),
           # masks together with sub-pixel precision: a fractional right position needs both neighbouring columns (masks_dilatation's shifted mask)
           dict(method='sad', subpix=2, masks=True, H=3, W=5, dmin=-1, dmax=1), dict(method='census', subpix=4, masks=True, H=3, W=5, dmin=-1, dmax=0),
           dict(method='sad', subpix=4, masks=True, ws=1, H=1, W=4, dmin=-1, dmax=1)]
    if not ctx.quick:
        sub += [dict(method='census', subpix=4, W=6, dmin=-1, dmax=1), dict(method='ssd', subpix=4, H=3, W=5, dmin=-1, dmax=0), dict(method='sad', subpix=4, ws=5, H=5, W=7, dmin=-1, dmax=1),
                dict(method='sad', subpix=2, H=4, W=7, dmin=-3, dmax=3), dict(method='ssd', subpix=2, masks=True, H=3, W=5, dmin=-1, dmax=1),
                dict(method='sad', subpix=4, masks=True, H=3, W=6, dmin=-2, dmax=2), dict(method='census', subpix=2, masks=True, ws=5, H=5, W=7, dmin=-1, dmax=1)]
    for kw in sub:
        J.append({'mod': MOD, 'fn': 'subpix_volume', 'mode': 'sym', 'args': dict(kw, cap=cap)})
    # ZNCC: structure for all images (shape, type of measure, NaN pattern, finite elsewhere); the value only at pinned image pairs; band selection relationally
    J.append({'mod': MOD, 'fn': 'zncc_volume', 'mode': 'sym', 'args': dict(H=3, W=4, dmin=-1, dmax=1, cap=cap)})
    J.append({'mod': MOD, 'fn': 'zncc_bands', 'mode': 'sym', 'args': dict(H=3, W=4, dmin=-1, dmax=0, cap=cap)})
    # the window statistics of zncc are accumulated in double precision (bit-precise float harness)
    J.append({'mod': MOD, 'fn': 'mean_raster_fp', 'mode': 'sym', 'args': dict(H=2, W=1, win=1, cap=cap)})
    if not ctx.quick:
        J.append({'mod': MOD, 'fn': 'zncc_bands', 'mode': 'sym', 'args': dict(H=3, W=4, dmin=0, dmax=1, subpix=2, cap=cap)})
        J.append({'mod': MOD, 'fn': 'zncc_volume', 'mode': 'sym', 'args': dict(H=3, W=5, dmin=-2, dmax=1, cap=cap)})
    cexs = []
    for r in ctx.run_jobs(J, timeout=1200 if ctx.quick else 5400):
        cexs += ctx.absorb(r)
    ctx.replay_all(cexs, MOD, 'replay')
    ctx.cov['explanation'] = ('the real chain allocate_cost_volume -> validity_mask -> compute_cost_volume -> cv_masked (-> to_disp) executed symbolically in '
                              'ONE path on symbolic integer-valued images and symbolic 4-valued masks (exact value domain; the real xarray plumbing, '
                              'strided window sums and mask arithmetic run unmodified on z3-backed duck arrays); per (row, col, disparity) z3 decides '
                              'cost == direct window sum of the measure and NaN <=> not computable (window leaves an image, nodata in a window, centre '
                              'masked, disparity outside the pixel interval); SAD, SSD, census; scalar intervals and per-pixel grids; band selection; '
                              'column coordinates not starting at 0; sub-pixel precision 2 and 4 (with and without symbolic masks: a fractional right position is computable iff both neighbouring columns are): cost at k + i/subpix == measure against the right image '
                              'linearly interpolated between columns (scipy zoom order 1 = the linear map read off the real zoom on unit vectors)')
    ctx.assumptions += ['C02: ZNCC: for arbitrary images only shape, type of measure / maximal cost, NaN pattern, finiteness and band selection are decided; the VALUE (a degree-6 polynomial identity with square roots that z3 does not decide within the caps) is decided at 3 pinned image pairs per job only (ground queries, one pair with zero-variance windows)', 'C02: subpix > 4 and step != 1 are outside the harness']


def replay(body):
    from vf.common import Ctx
    import json, shutil
    ctx = Ctx(body['property'], 'quick', 0)
    fn = 'replay_nested' if body['cex'].get('extra', {}).get('nested') else 'replay'
    r = ctx.run_job({'mod': MOD, 'fn': fn, 'mode': 'plain', 'nojit': True, 'args': {'cex': body['cex']}}, 600)
    print(json.dumps({k: v for k, v in r.items() if k != 'job'}, indent=1))
    shutil.rmtree(ctx.scratch, ignore_errors=True)
    return 1 if r.get('violates') else 0
