"""C08 (structural part): right products == left products of the mirrored problem, on the real machine with EUF stubs."""
from .e3common import run_e3, MOD, replay as _replay


def main(ctx):
    ctx.level = 'other'
    cexs = run_e3(ctx, 'C08', 5 if ctx.quick else 7, ms_variants=((2, 2),) if ctx.quick else ((2, 2), (3, 2)),
                  suffix_styles=(0,), fillings=(False, True), histories=True)
    from . import c08v
    cexs_v = c08v.value_level(ctx)
    ctx.replay_all(cexs, MOD, 'replay')
    c08v.replay_cex(ctx, cexs_v)
    ctx.cov['explanation'] = ('structural: the real PandoraMachine callbacks run every legal pipeline word (solver-enumerated, bounded '
                              'length) twice -- (L, R, [a,b]) and (R, L, [-b,-a]) with symbolic interval ends -- with EUF stub steps; '
                              'z3 decides right1 == left2 and left1 == right2 on the result terms (EUF + linear real arithmetic); '
                              'value level: see harness list')


def replay(body):
    if body['cex'].get('harness', '').startswith('e3'):
        return _replay(body, 'C08')
    from . import c08v
    return c08v.replay(body)
