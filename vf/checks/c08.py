"""C08 (structural part): right products == left products of the mirrored problem, on the real machine with EUF stubs."""
from .e3common import run_e3, MOD, replay as _replay


def main(ctx):
    ctx.level = 'other'
    cexs = run_e3(ctx, 'C08', 5 if ctx.quick else 7, ms_variants=((2, 2),) if ctx.quick else ((2, 2), (3, 2)),
                  suffix_styles=(0,), fillings=(False, True), histories=True)
    # value level of the one step written for two maps: the cross-check applies the same rule whichever map comes first, and reads only
    # the other map's DISPARITIES (the E3 stub contract): C07's harness with symbolic masks on both maps, incl. a second call
    vj = [{'mod': 'vf.harness.c07', 'fn': 'xcheck_exact', 'mode': 'sym', 'args': dict(a, cap=60 if ctx.quick else 300, block=['KF-C07-outside-mismatch'])}
          for a in (dict(W=2, dmin=-1, dmax=1), dict(W=3, dmin=-1, dmax=1, warm=True), dict(W=2, dmin=0, dmax=2, thr='1/2'))]
    cexs_x = []
    for r in ctx.run_jobs(vj, timeout=1500):
        cexs_x += [c for c in ctx.absorb(r) if not c.get('known')]
    ctx.replay_all(cexs_x, 'vf.harness.c07', 'replay')
    from . import c08v
    cexs_v = c08v.value_level(ctx)
    ctx.replay_all(cexs, MOD, 'replay')
    c08v.replay_cex(ctx, cexs_v)
    ctx.cov['explanation'] = ('structural: the real PandoraMachine callbacks run every legal pipeline word (solver-enumerated, bounded '
                              'length) twice -- (L, R, [a,b]) and (R, L, [-b,-a]) with symbolic interval ends -- with EUF stub steps; '
                              'z3 decides right1 == left2 and left1 == right2 on the result terms (EUF + linear real arithmetic); '
                              'value level: see harness list')


def replay(body):
    if body['cex'].get('harness', '').startswith('e3'):
        return _replay(body, 'C08')
    if body['cex'].get('harness', '').startswith('c07'):
        from .c07 import replay as r7
        return r7(body)
    from . import c08v
    return c08v.replay(body)
