"""C03 winner-takes-all: bounded symbolic execution of the real to_disp on symbolic cost volumes."""
MOD = 'vf.harness.c03'


def jobs(ctx):
    J = []

    def j(R, C, D, m, inv='-9999', stripe=None, subpix=1, cap=None, nan_upto=0):
        J.append({'mod': MOD, 'fn': 'wta', 'mode': 'sym',
                  'args': {'R': R, 'C': C, 'D': D, 'measure': m, 'invalid': inv, 'stripe': stripe, 'seed': ctx.seed,
                           'subpix': subpix, 'cap': cap or (60 if ctx.quick else 300), 'nan_upto': nan_upto}})
    for m in ('min', 'max'):
        j(2, 2, 3, m); j(1, 2, 3, m, 'nan'); j(1, 1, 3, m, 'sym'); j(1, 2, 2, m, subpix=2)
        j(101, 1, 2, m, stripe=(0, 98, 101)); j(1, 101, 2, m, stripe=(1, 98, 101))
        j(1, 2, 257, m, stripe=(2, 0, 2))      # counts of computable costs around 256 (narrow integer types)
        # a whole leading 100-pixel block without any computable cost (no-data area), then two more blocks
        j(1, 203, 2, m, stripe=(1, 199, 203), nan_upto=100); j(203, 1, 2, m, stripe=(0, 199, 203), nan_upto=100)
    if not ctx.quick:
        for m in ('min', 'max'):
            j(3, 4, 4, m); j(2, 2, 4, m, 'nan', subpix=4)
            for n in (99, 100, 199, 200, 201):
                j(n, 1, 2, m, stripe=(0, max(0, n - 103), n) if n < 150 else (0, 197, n) if n > 197 else (0, 98, 102))
                j(1, n, 2, m, stripe=(1, max(0, n - 103), n) if n < 150 else (1, 197, n) if n > 197 else (1, 98, 102))
            j(101, 101, 1, m, stripe=(0, 99, 101))
            j(101, 102, 2, m, stripe=(1, 100, 102), cap=600)
        j(101, 1, 2, 'min')      # fully symbolic column across the block boundary
    return J


def main(ctx):
    ctx.level = 'other'
    J = jobs(ctx)
    cexs = []
    for r in ctx.run_jobs(J, timeout=900 if ctx.quick else 3000):
        cexs += ctx.absorb(r)
    ctx.replay_all(cexs, MOD, 'replay')
    ctx.cov['explanation'] = ('real WinnerTakesAll.to_disp/argmin_split/argmax_split executed symbolically (import-hook '
                              'instrumented source, float32 bit-precise z3 FP) on symbolic cost volumes, masks, confidence '
                              'and invalid_disparity; oracle = statement (lowest index among the extremal non-NaN costs; '
                              'all-NaN -> invalid value bit-exact); shapes incl. the 100-pixel block boundaries with a '
                              'symbolic stripe across the boundary; unsat = holds for every value within the shape bound')


def replay(body):
    from vf.common import Ctx
    import json
    ctx = Ctx('C03', 'quick', 0)
    r = ctx.run_job({'mod': MOD, 'fn': 'replay', 'mode': 'plain', 'args': {'cex': body['cex']}}, 600)
    print(json.dumps({k: v for k, v in r.items() if k != 'job'}, indent=1))
    import shutil; shutil.rmtree(ctx.scratch, ignore_errors=True)
    return 1 if r.get('violates') else 0
