"""C06 refinement: real loop_refinement + vfit/quadratic executed symbolically per pixel (real-arithmetic and bit-precise FP harnesses)."""
MOD = 'vf.harness.c06'


def jobs(ctx):
    J = []
    blk = ctx.known_ids
    cap = 60 if ctx.quick else 300

    def real(method, measure, subpix, D, k, frac=0):
        J.append({'mod': MOD, 'fn': 'refine_real', 'mode': 'sym',
                  'args': {'method': method, 'measure': measure, 'subpix': subpix, 'D': D, 'k': k, 'frac': frac, 'cap': cap, 'block': blk}})

    def fp(method, measure, subpix, D, k, float_disp=False):
        J.append({'mod': MOD, 'fn': 'refine_fp', 'mode': 'sym',
                  'args': {'method': method, 'measure': measure, 'subpix': subpix, 'D': D, 'k': k, 'cap': cap, 'block': blk, 'float_disp': float_disp}})
    for method in ('vfit', 'quadratic'):
        for measure in ('min', 'max'):
            real(method, measure, 1, 3, 1); real(method, measure, 1, 3, 0); real(method, measure, 2, 4, 2)
            real(method, measure, 1, 4, 1, frac=2)          # disparity left between two samples by a filter
            real(method, measure, 1, 4, 2, frac=3)          # ... closer than half a sample to the upper end of the interval
            real(method, measure, 1, 4, 0, frac=1)          # ... inside the first sample interval (dsp == 0 although disp != d_min)
    if not ctx.quick:
        fp('vfit', 'min', 1, 3, 1); fp('quadratic', 'min', 1, 3, 1)
        for method in ('vfit', 'quadratic'):
            for measure in ('min', 'max'):
                for subpix, D in ((1, 4), (2, 5), (4, 5)):
                    for k in range(D):
                        real(method, measure, subpix, D, k)
                    real(method, measure, subpix, D, 1, frac=1); real(method, measure, subpix, D, 2, frac=3)
                fp(method, measure, 2, 4, 2); fp(method, measure, 1, 3, 0); fp(method, measure, 4, 5, 3)
                fp(method, measure, 1, 3, 1, float_disp=True)
    return J


def main(ctx):
    ctx.level = 'other'
    cexs = []
    for r in ctx.run_jobs(jobs(ctx), timeout=1500 if ctx.quick else 5400):
        cexs += ctx.absorb(r)
    ctx.replay_all(cexs, MOD, 'replay')
    ctx.cov['explanation'] = ('real AbstractRefinement.loop_refinement with the real Vfit/Quadratic.refinement_method (numba kernels run from their '
                              'Python source) on one symbolic pixel: D costs, validity mask, winner index enumerated, incoming disparity on or '
                              'between samples; branches fork; each path ends with z3 queries: shift <= half a sample, result == documented fit, '
                              'coefficient never worse, flags (bit 3 iff cause, no other bit), totality (no exception, no division by zero, '
                              'indices in bounds); real-arithmetic harness for the algebra, bit-precise float harness for the stored values')


def replay(body):
    from vf.common import Ctx
    import json, shutil
    ctx = Ctx('C06', 'quick', 0)
    r = ctx.run_job({'mod': MOD, 'fn': 'replay', 'mode': 'plain', 'args': {'cex': body['cex']}}, 600)
    print(json.dumps({k: v for k, v in r.items() if k != 'job'}, indent=1))
    shutil.rmtree(ctx.scratch, ignore_errors=True)
    return 1 if r.get('violates') else 0
