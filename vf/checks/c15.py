"""C15: multiscale schedule (real machine + real read_multiscale_params, EUF stubs) and disparity_range numerics (E1)."""
from .e3common import run_e3, MOD, replay as _replay


def main(ctx):
    ctx.level = 'other'
    ms = ((2, 2), (3, 2), (3, 3)) if ctx.quick else ((2, 2), (3, 2), (2, 3), (3, 3), (4, 2))
    cexs = run_e3(ctx, 'C15', 5 if ctx.quick else 7, word_filter=lambda w: 9 in w, ms_variants=ms, suffix_styles=(0,),
                  fillings=(False,), histories=True, mirror=False)
    from . import c15n
    cexs_n = c15n.numerics(ctx)
    ctx.replay_all(cexs, MOD, 'replay')
    c15n.replay_cex(ctx, cexs_n)
    ctx.cov['explanation'] = ('schedule: real pandora.run / read_multiscale_params / run_prepare / matching_cost_prepare / run_multiscale '
                              'executed with EUF stubs and a stub pyramid; interval ends are z3 Reals, so "coarsest interval == user / sf^(n-1)" '
                              'and "finer interval == sf * disparity_range(coarser map)" are z3 validity queries; ' + ctx.cov.pop('explanation_numerics', ''))


def replay(body):
    if body['cex'].get('harness', '').startswith('e3'):
        return _replay(body, 'C15')
    from . import c15n
    return c15n.replay(body)
