"""C16: image datasets faithfully encode rasters, masks, nodata and ROI."""
MOD = 'vf.harness.c16'


def jobs(ctx):
    J = [{'mod': MOD, 'fn': 'window', 'mode': 'sym', 'args': {'cap': 30 if ctx.quick else 120}}]

    def d(**kw):
        kw.setdefault('cap', 60 if ctx.quick else 300)
        J.append({'mod': MOD, 'fn': 'dataset', 'mode': 'sym', 'args': kw})
    roi1 = {"col": {"first": 1, "last": 1}, "row": {"first": 0, "last": 0}, "margins": [1, 0, 0, 1]}
    roi2 = {"col": {"first": 2, "last": 5}, "row": {"first": 1, "last": 1}, "margins": [0, 1, 2, 0]}
    d(); d(nodata='nan'); d(nodata='inf', with_mask=False); d(nodata='-inf'); d(bands=2, nodata='nan'); d(bands=2, with_mask=False)
    d(with_grids=True, with_classif=True, roi=roi1); d(rows=2, cols=3, roi=roi2, nodata='nan')
    # multi-band read through a ROI whose row and column offsets differ
    d(rows=3, cols=4, bands=2, roi={"col": {"first": 2, "last": 3}, "row": {"first": 1, "last": 2}, "margins": [0, 1, 0, 0]}, with_mask=False)
    if not ctx.quick:
        for nd in ('sym', 'nan', 'inf'):
            for b in (1, 2, 3):
                d(rows=3, cols=4, bands=b, nodata=nd, with_mask=(b != 2), with_grids=(b == 1))
        for c0 in range(0, 3):
            for m in ([0, 0, 0, 0], [1, 1, 1, 1], [2, 0, 1, 3]):
                d(rows=3, cols=4, roi={"col": {"first": c0, "last": c0 + 1}, "row": {"first": 1, "last": 2}, "margins": m}, with_grids=True)
    return J


def main(ctx):
    ctx.level = 'other'
    cexs = []
    for r in ctx.run_jobs(jobs(ctx), timeout=900 if ctx.quick else 3600):
        cexs += ctx.absorb(r)
    ctx.replay_all(cexs, MOD, 'replay')
    ctx.cov['explanation'] = ('get_window executed with symbolic integers (ROI, margins, image size) against the statement (window == ROI with margins '
                              'clipped to the image, refused iff empty intersection); create_dataset_from_inputs / add_no_data / add_mask / add_disparity / '
                              'add_classif / add_segm executed on symbolic rasters (any float32 incl. NaN/inf, any int32 mask value, symbolic nodata) '
                              'delivered by a stub reader; z3 decides per pixel: samples unchanged except NaN/inf nodata -> -9999, msk class == statement, '
                              'msk present iff something to flag, disparity variable, attached rasters unchanged, ROI read == crop of the full raster')


def replay(body):
    from vf.common import Ctx
    import json, shutil
    ctx = Ctx('C16', 'quick', 0)
    r = ctx.run_job({'mod': MOD, 'fn': 'replay', 'mode': 'plain', 'nojit': True, 'args': {'cex': body['cex']}}, 600)
    print(json.dumps({k: v for k, v in r.items() if k != 'job'}, indent=1))
    shutil.rmtree(ctx.scratch, ignore_errors=True)
    return 1 if r.get('violates') else 0
