"""C05: configuration checking completes, preserves and polices every parameter (typed symbolic scalars through the real check_conf)."""
import itertools
MOD = 'vf.harness.c05'


def jobs(ctx, only_margins=False):
    from vf.harness.c05 import CLASSES
    J = []
    cap = 30 if ctx.quick else 120
    if not only_margins:
        for cls, spec in CLASSES.items():
            ps = list(spec['params'])
            J.append({'mod': MOD, 'fn': 'step_class', 'mode': 'sym', 'args': {'cls': cls, 'params': [], 'cap': cap}})
            for p in ps:
                J.append({'mod': MOD, 'fn': 'step_class', 'mode': 'sym', 'args': {'cls': cls, 'params': [p], 'cap': cap}})
                if spec['params'][p][0] != 'intfloat':
                    J.append({'mod': MOD, 'fn': 'step_class', 'mode': 'sym', 'args': {'cls': cls, 'params': [p], 'wrong': [p], 'cap': cap}})
            pairs = list(itertools.combinations(ps, 2))
            if ctx.quick:
                pairs = pairs[:2]
            for a, b in pairs:
                J.append({'mod': MOD, 'fn': 'step_class', 'mode': 'sym', 'args': {'cls': cls, 'params': [a, b], 'cap': cap}})
            if not ctx.quick and len(ps) >= 3:
                J.append({'mod': MOD, 'fn': 'step_class', 'mode': 'sym', 'args': {'cls': cls, 'params': ps[:4], 'cap': cap}})
        J.append({'mod': MOD, 'fn': 'structural', 'mode': 'sym', 'args': {}})
    for v in ('median', 'bilateral', 'cbca'):
        for wv in (True, False):
            J.append({'mod': MOD, 'fn': 'pipeline', 'mode': 'sym', 'args': {'variant': v, 'with_validation': wv, 'cap': cap}})
    return J


def main(ctx):
    ctx.level = 'other'
    cexs = []
    for r in ctx.run_jobs(jobs(ctx), timeout=900 if ctx.quick else 3600):
        cexs += ctx.absorb(r)
    own = [c for c in cexs if 'margins' not in c['name']]
    ctx.replay_all([c for c in own if not c['extra'].get('structural')], MOD, 'replay')
    ctx.replay_all([dict(c, case=c['extra']['case'].get('case')) for c in own if c['extra'].get('structural')], MOD, 'replay_structural')
    ctx.cov['explanation'] = ('the real check_conf of all 19 built-in step classes and the real check_pipeline_section / PandoraMachine.check_conf run '
                              'with typed symbolic scalars (int -> z3 Int, float -> z3 Float64; proxies pass isinstance like real values); json_checker '
                              'executes for real (only its message formatting and exact-type filter are stubbed); every path is explored and z3 decides '
                              '"accepted <=> value inside the documented domain", value/position preservation, documented defaults, no mutation of the '
                              'user dictionary, idempotence; parameters alone, of the wrong numeric type, in pairs, and combined in pipelines')
    ctx.assumptions += ['C05: json_checker message formatting stubbed (constant strings); its exact-type filter sees the symbolic proxies as int/float',
                        'C05: plugins and the steps without built-in method (optimization, semantic_segmentation) out of scope']


def replay(body):
    from vf.common import Ctx
    import json, shutil
    ctx = Ctx('C05', 'quick', 0)
    fn = 'replay_structural' if body['cex'].get('extra', {}).get('structural') else 'replay'
    cx = body['cex']
    if fn == 'replay_structural':
        cx = dict(cx, case=cx['extra']['case'].get('case'))
    r = ctx.run_job({'mod': MOD, 'fn': fn, 'mode': 'plain', 'nojit': True, 'args': {'cex': cx}}, 600)
    print(json.dumps({k: v for k, v in r.items() if k != 'job'}, indent=1))
    shutil.rmtree(ctx.scratch, ignore_errors=True)
    return 1 if r.get('violates') else 0
