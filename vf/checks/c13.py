"""C13: results are local -- a pixel depends on its neighbourhood, not on its position (crop / tile / flip invariance)."""
MOD = 'vf.harness.c02'


def main(ctx):
    ctx.level = 'other'
    cap = 120 if ctx.quick else 600
    J = []

    def loc(**kw):
        kw['cap'] = cap
        J.append({'mod': MOD, 'fn': 'locality', 'mode': 'sym', 'args': kw})
    loc(); loc(dmin=1, dmax=2, crop=[2, 7]); loc(dmin=-2, dmax=-1, crop=[0, 5]); loc(zero_based=True, method='census'); loc(flip=True, masks=True)
    loc(H=5, W=5, rows=[1, 5], crop=[0, 5], dmin=0, dmax=0); loc(masks=True, crop=[1, 7]); loc(ws=1, H=2, W=6, dmin=-1, dmax=2, crop=[1, 6])
    loc(H=5, W=7, with_median=True, dmin=0, dmax=1, crop=[0, 6], ws=1)
    # processing-block independence of the median filter when whole 100-pixel blocks hold no valid pixel (tiles cut elsewhere move the grid)
    J.append({'mod': 'vf.harness.c10', 'fn': 'median', 'mode': 'sym', 'args': {'R': 3, 'C': 206, 'stripe': [1, 150, 151], 'invalid_upto': 104, 'cap': cap, 'seed': ctx.seed}})
    # one-row cross-checking: a pixel's flags depend on its own row only (rows are processed independently): C07's harness with 3 rows
    J.append({'mod': 'vf.harness.c07', 'fn': 'xcheck_exact', 'mode': 'sym', 'args': {'W': 3, 'dmin': -1, 'dmax': 1, 'H': 3, 'offset': 1, 'cap': cap, 'block': ['KF-C07-outside-mismatch']}})
    # the same rule on datasets whose column coordinates do not start at 0 (tiles read through a ROI keep the whole-image coordinates)
    J.append({'mod': 'vf.harness.c07', 'fn': 'xcheck_exact', 'mode': 'sym', 'args': {'W': 3, 'dmin': -1, 'dmax': 1, 'col0': 9, 'cap': cap, 'block': ['KF-C07-outside-mismatch']}})
    J.append({'mod': 'vf.harness.c07', 'fn': 'xcheck_exact', 'mode': 'sym', 'args': {'W': 2, 'dmin': 0, 'dmax': 2, 'col0': 1, 'cap': cap, 'block': ['KF-C07-outside-mismatch']}})
    # bilateral filter: a map straddling its 50-pixel blocks agrees with a single-block crop (position on the block grid does not matter)
    J.append({'mod': 'vf.harness.c10', 'fn': 'bilateral_blocks', 'mode': 'sym', 'args': {'axis': 1, 'N': 53, 'lo': 47, 'hi': 53, 'cap': cap, 'seed': ctx.seed}})
    J.append({'mod': 'vf.harness.c10', 'fn': 'bilateral_blocks', 'mode': 'sym', 'args': {'axis': 0, 'N': 104, 'lo': 49, 'hi': 55, 'invalid_upto': 48, 'cap': cap, 'seed': ctx.seed}})
    # zncc window statistics do not depend on the row position (double-precision accumulation, bit-precise float harness)
    J.append({'mod': 'vf.harness.c02', 'fn': 'mean_raster_fp', 'mode': 'sym', 'args': {'H': 2, 'W': 1, 'win': 1, 'cap': cap}})
    # a run must not write into the images it was given (tiles taken as views of one array would otherwise see each other's NaNs)
    J.append({'mod': 'vf.harness.c18', 'fn': 'cbca_inputs', 'mode': 'sym', 'args': {'cap': cap}})
    if not ctx.quick:
        for c0 in range(0, 3):
            loc(W=8, crop=[c0, c0 + 6], dmin=-1, dmax=1); loc(W=8, crop=[c0, c0 + 6], dmin=1, dmax=2, method='census')
        loc(flip=True, method='census', H=4); loc(H=5, W=7, with_median=True, dmin=-1, dmax=0, crop=[1, 7], ws=1, masks=True)
        loc(H=5, W=6, rows=[0, 4], crop=[1, 6], dmin=0, dmax=1, masks=True)
        J.append({'mod': 'vf.harness.c10', 'fn': 'median', 'mode': 'sym', 'args': {'R': 3, 'C': 306, 'stripe': [1, 250, 251], 'invalid_upto': 204, 'cap': cap, 'seed': ctx.seed}})
    by = {}
    for r in ctx.run_jobs(J, timeout=1500 if ctx.quick else 7200):
        for cx in ctx.absorb(r):
            if cx.get('known'):
                continue
            fn = 'replay_locality' if r['job']['fn'] == 'locality' else 'replay'
            by.setdefault((r['job']['mod'], fn), []).append(cx)
    for (mod, fn), cexs in by.items():
        ctx.replay_all(cexs, mod, fn)
    ctx.cov['explanation'] = ('relational harness: the real matching-cost -> winner-takes-all (-> median) chain runs on a whole symbolic image pair and on a crop '
                              '(tile) of it inside one symbolic execution; for every pixel whose dependency cone (window radius, extended by the disparity '
                              'interval along columns) lies inside the crop z3 decides identical costs, disparity and flags; crops starting at various '
                              'columns/rows, with the original coordinates kept (ROI style) or restarted at 0, positive / negative / mixed intervals, masks; '
                              'vertical flip of both images flips the outputs; block-grid independence of the median filter with fully invalid blocks and of the '
                              'bilateral filter (50-pixel blocks); cross-checking on datasets whose column coordinates do not start at 0')
    ctx.assumptions += ['C13: integer radiometry (exact domain); SAD/census + wta (+ 3x3 median); cbca, bilateral, refinement and cross-checking are covered '
                        'through their own per-pixel / per-row harnesses (C11, C10, C06, C07), not relationally']


def replay(body):
    from vf.common import Ctx
    import json, shutil
    ctx = Ctx('C13', 'quick', 0)
    job = body['cex'].get('job', {})
    fn = 'replay_locality' if job.get('fn') == 'locality' else 'replay'
    r = ctx.run_job({'mod': job.get('mod', MOD), 'fn': fn, 'mode': 'plain', 'nojit': True, 'args': {'cex': body['cex']}}, 900)
    print(json.dumps({k: v for k, v in r.items() if k != 'job'}, indent=1))
    shutil.rmtree(ctx.scratch, ignore_errors=True)
    return 1 if r.get('violates') else 0
