"""C20: reported margins are a pure, monotone function of the checked pipeline."""
MOD = 'vf.harness.c05'


def main(ctx):
    ctx.level = 'other'
    from .c05 import jobs
    J = jobs(ctx, only_margins=True)
    cap = 30 if ctx.quick else 120
    J += [{'mod': MOD, 'fn': 'step_margins', 'mode': 'sym', 'args': {'part': 'steps', 'cap': cap}},
          {'mod': MOD, 'fn': 'step_margins', 'mode': 'sym', 'args': {'part': 'global', 'cap': cap}}]
    cexs = []
    for r in ctx.run_jobs(J, timeout=900 if ctx.quick else 3600):
        cexs += ctx.absorb(r)
    own = [c for c in cexs if 'margin' in c['name'] or 'second-check' in c['name']]
    ctx.replay_all([c for c in own if c['extra'].get('pipeline')], MOD, 'replay')
    for c in own:
        if not c['extra'].get('pipeline'):
            # step-class margins: the harness evaluates the real property getters; replay by re-running on the model values
            ctx.replay_all([c], MOD, 'replay_margins')
    # the margins obligations of the E3 history harness: unaffected by the second (right/left) round and a second check
    ctx.cov['explanation'] = ('real margins code (Margins, GlobalMargins, max_margins, descriptors, the margins properties of the filters) and the real '
                              'PandoraMachine.check_conf registration executed with symbolic window size, filter sizes, sigma_space, step and image '
                              'shape; z3 decides: listed steps and values == documented formula, global == per-side max(sum of cumulative, each '
                              'non-cumulative), non-negative, monotone when a step is added, unchanged by the right/left second round and by a second check')


def replay(body):
    from vf.common import Ctx
    import json, shutil
    ctx = Ctx('C20', 'quick', 0)
    fn = 'replay' if body['cex'].get('extra', {}).get('pipeline') else 'replay_margins'
    r = ctx.run_job({'mod': MOD, 'fn': fn, 'mode': 'plain', 'nojit': True, 'args': {'cex': body['cex']}}, 600)
    print(json.dumps({k: v for k, v in r.items() if k != 'job'}, indent=1))
    shutil.rmtree(ctx.scratch, ignore_errors=True)
    return 1 if r.get('violates') else 0
