"""C09: the requested disparity interval is honoured and does not leak into costs."""
import itertools
MOD = 'vf.harness.c02'


def main(ctx):
    ctx.level = 'other'
    cap = 60 if ctx.quick else 300
    J = []
    lo, hi = (-2, 2) if ctx.quick else (-3, 3)
    pairs = []
    for a, b in itertools.combinations_with_replacement(range(lo, hi + 1), 2):
        for c, d in itertools.combinations_with_replacement(range(lo, hi + 1), 2):
            if c <= a and b <= d and (a, b) != (c, d):
                pairs.append(((a, b), (c, d)))
    import random
    random.Random(ctx.seed).shuffle(pairs)
    for i, (inner, outer) in enumerate(pairs if not ctx.quick else pairs[:24]):
        method = ('sad', 'census', 'ssd')[i % 3] if not ctx.quick else ('sad', 'census')[i % 2]
        J.append({'mod': MOD, 'fn': 'nested', 'mode': 'sym', 'args': {'method': method, 'ws': 3, 'H': 3, 'W': 6 if method != 'census' else 5,
                                                                        'inner': list(inner), 'outer': list(outer), 'masks': i % 2 == 0, 'cap': cap}})
    # per-pixel grids: the measure inside each pixel's interval, NaN outside; constant grid == scalar interval (C02 oracle)
    for kw in (dict(grids=True, masks=False), dict(grids=True, masks=True, H=3, W=5, dmin=-2, dmax=1), dict(grids=True, method='census', masks=False, H=3, W=5),
               dict(grids='frac', masks=True, H=3, W=5, dmin=-2, dmax=1)):       # non-integer grid values
        J.append({'mod': MOD, 'fn': 'cost_volume', 'mode': 'sym', 'args': dict(kw, cap=cap)})
    # every valid pixel's disparity stays in the interval after refinement (incl. after a filter); stored interval == searched
    for method in ('vfit', 'quadratic'):
        J.append({'mod': 'vf.harness.c06', 'fn': 'refine_real', 'mode': 'sym', 'args': {'method': method, 'measure': 'min', 'subpix': 1, 'D': 4, 'k': 1, 'frac': 2, 'cap': cap}})
    # ... also when the disparity was moved close to an end of the interval before the refinement, and after occlusion / mismatch filling
    # (filled values are taken from valid pixels, hence inside the interval)
    for method in ('vfit', 'quadratic'):
        J.append({'mod': 'vf.harness.c06', 'fn': 'refine_real', 'mode': 'sym', 'args': {'method': method, 'measure': 'min', 'subpix': 1, 'D': 4, 'k': 2, 'frac': 3, 'cap': cap}})
    for method in ('mc-cnn', 'sgm'):
        J.append({'mod': 'vf.harness.c14', 'fn': 'fill', 'mode': 'sym', 'args': {'method': method, 'H': 1, 'W': 3, 'cap': cap}})
        J.append({'mod': 'vf.harness.c14', 'fn': 'fill', 'mode': 'sym', 'args': {'method': method, 'H': 2, 'W': 2, 'cap': cap, 'prefix': [True]}})
        J.append({'mod': 'vf.harness.c14', 'fn': 'fill', 'mode': 'sym', 'args': {'method': method, 'H': 2, 'W': 2, 'cap': cap, 'prefix': [False]}})
    for m in ('min', 'max'):      # costs outside a pixel's interval are NaN and stay NaN after the disparity step
        J.append({'mod': 'vf.harness.c03', 'fn': 'wta', 'mode': 'sym', 'args': {'R': 2, 'C': 2, 'D': 3, 'measure': m, 'cap': cap}})
    # the interval handed to the matching cost by the state machine is the requested one (left) / its negation (right), whatever the
    # order of the band_disp coordinate of the dataset: real machine callbacks with EUF stub steps (E3)
    from .e3common import run_e3
    e3 = run_e3(ctx, 'C09', 4 if ctx.quick else 5, word_filter=lambda w: 9 not in w, histories=False, mirror=False, chunks=6)
    ctx.replay_all(e3, 'vf.harness.e3jobs', 'replay')
    by_mod = {}
    for r in ctx.run_jobs(J, timeout=1500 if ctx.quick else 5400):
        for cx in ctx.absorb(r):
            by_mod.setdefault((r['job']['mod'], 'replay_nested' if r['job']['fn'] == 'nested' else 'replay'), []).append(cx)
    for (mod, fn), cexs in by_mod.items():
        ctx.replay_all(cexs, mod, fn)
    ctx.cov['explanation'] = ('relational harness: the real matching-cost chain is run twice in one symbolic execution, for an interval I and a larger '
                              'interval J, on the same symbolic images and masks; z3 decides that the volume for I equals the slice of the volume for J '
                              '(NaN-aware, every nested pair inside the bound); per-pixel grids: measure inside each pixel interval, NaN outside; '
                              'refinement keeps valid pixels inside the interval (also for disparities a filter left close to an end); filled occlusions / mismatches take their '
                              'value from valid pixels; the stored disparity_interval is the searched one')


def replay(body):
    from .c02 import replay as r
    return r(body)
