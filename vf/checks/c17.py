"""C17: malformed inputs refused up front, well-formed inputs never."""
MOD = 'vf.harness.c17'


def jobs(ctx):
    from vf.harness.c17 import VARIANTS
    J = []
    cap = 30 if ctx.quick else 120

    def d(**kw):
        kw['cap'] = cap
        J.append({'mod': MOD, 'fn': 'datasets', 'mode': 'sym', 'args': kw})

    def i(**kw):
        kw['cap'] = cap
        J.append({'mod': MOD, 'fn': 'input_section', 'mode': 'sym', 'args': kw})
    for v in VARIANTS:
        d(lvar=v, rvar='ok'); d(lvar='ok', rvar=v, right_disp=v.startswith('disp'))
    d(lvar='ok-multiband', rvar='ok-multiband', right_disp=True)
    for dr, dc in ((1, 0), (0, 1), (1, 1), (-1, 0), (0, -1)):
        d(drows=dr, dcols=dc, rows=3, cols=3)
    d(left_disp=False); d(left_disp=False, right_disp=True)
    if not ctx.quick:
        for a in VARIANTS[3:]:
            for b in VARIANTS[3:8]:
                d(lvar=a, rvar=b)
    for mode in ('int', 'grid', 'grids', 'int-right-int', 'int-right-grid', 'grid-count', 'grid-u8'):
        i(mode=mode)
    for aux in ('mask', 'classif', 'segm'):
        i(mode='int', aux=aux)
    i(mode='grid', aux='mask')
    if not ctx.quick:
        i(mode='grids', aux='mask'); i(mode='int', aux='all')
    return J


def main(ctx):
    ctx.level = 'other'
    cexs = []
    for r in ctx.run_jobs(jobs(ctx), timeout=900 if ctx.quick else 3600):
        cexs += ctx.absorb(r)
    ctx.replay_all(cexs, MOD, 'replay')
    ctx.cov['explanation'] = ('check_datasets / check_dataset / check_disparities_from_dataset / check_band_names / check_shape / check_attributes executed on '
                              'xarray datasets whose structure comes from a finite list of variants (each mandatory item present/absent, shapes equal/unequal, '
                              'band names str/other) and whose contents (image NaN pattern, disparity grids) are symbolic; check_input_section / check_images / '
                              'check_disparities_from_input executed with stub readers whose sizes, band counts and grid bands are symbolic and with symbolic '
                              'integer disparities / nodata; z3 decides "accepted <=> well-formed" on every path')


def replay(body):
    from vf.common import Ctx
    import json, shutil
    ctx = Ctx('C17', 'quick', 0)
    r = ctx.run_job({'mod': MOD, 'fn': 'replay', 'mode': 'plain', 'nojit': True, 'args': {'cex': body['cex']}}, 600)
    print(json.dumps({k: v for k, v in r.items() if k != 'job'}, indent=1))
    shutil.rmtree(ctx.scratch, ignore_errors=True)
    return 1 if r.get('violates') else 0
