"""C12: confidence bands follow their definitions, bracket the winner, only add bands."""
MOD = 'vf.harness.c12'


def main(ctx):
    ctx.level = 'other'
    cap = 120 if ctx.quick else 600
    J = []
    for kw in (dict(nbands=1), dict(nbands=2), dict(nbands=0), dict(nbands=0, with_cv=False), dict(nbands=1, with_cv=False), dict(nbands=3, R=1, C=3)):
        J.append({'mod': MOD, 'fn': 'alloc', 'mode': 'sym', 'args': dict(kw, cap=cap)})
    J.append({'mod': MOD, 'fn': 'kernels', 'mode': 'sym', 'args': {'kind': 'ambiguity', 'cap': cap}})
    J.append({'mod': MOD, 'fn': 'kernels', 'mode': 'sym', 'args': {'kind': 'risk', 'cap': cap}})
    J.append({'mod': MOD, 'fn': 'kernels', 'mode': 'sym', 'args': {'kind': 'bounds', 'measure': 'min', 'cap': cap}})
    J.append({'mod': MOD, 'fn': 'kernels', 'mode': 'sym', 'args': {'kind': 'bounds', 'measure': 'max', 'threshold': 0.5, 'cap': cap}})
    J.append({'mod': MOD, 'fn': 'regularization', 'mode': 'sym', 'args': {'kernel': 1, 'cap': cap}})
    J.append({'mod': MOD, 'fn': 'regularization', 'mode': 'sym', 'args': {'kernel': 3, 'depth': 1, 'cap': cap}})
    J.append({'mod': MOD, 'fn': 'regularization', 'mode': 'sym', 'args': {'kernel': 1, 'nan_pixel': True, 'cap': cap}})       # a point with NaN bounds is ignored
    J.append({'mod': MOD, 'fn': 'std_intensity', 'mode': 'sym', 'args': {'R': 3, 'C': 4, 'cap': cap}})
    J.append({'mod': MOD, 'fn': 'std_intensity', 'mode': 'sym', 'args': {'R': 3, 'C': 3, 'bands': ['r', 'g'], 'band': 'g', 'cap': cap}})
    if not ctx.quick:
        J.append({'mod': MOD, 'fn': 'std_intensity', 'mode': 'sym', 'args': {'R': 5, 'C': 6, 'ws': 5, 'cap': cap}})
        J.append({'mod': MOD, 'fn': 'std_intensity', 'mode': 'sym', 'args': {'R': 4, 'C': 5, 'ws': 1, 'cap': cap}})
        J.append({'mod': MOD, 'fn': 'kernels', 'mode': 'sym', 'args': {'kind': 'risk', 'D': 4, 'eta_max': 0.75, 'cap': cap}})
        J.append({'mod': MOD, 'fn': 'kernels', 'mode': 'sym', 'args': {'kind': 'ambiguity', 'D': 4, 'eta_max': 1.0, 'eta_step': 0.125, 'cap': cap}})
        J.append({'mod': MOD, 'fn': 'kernels', 'mode': 'sym', 'args': {'kind': 'bounds', 'D': 4, 'threshold': 0.875, 'cap': cap}})
        J.append({'mod': MOD, 'fn': 'kernels', 'mode': 'sym', 'args': {'kind': 'risk', 'C': 4, 'cap': cap}})
        J.append({'mod': MOD, 'fn': 'regularization', 'mode': 'sym', 'args': {'R': 2, 'C': 4, 'kernel': 1, 'depth': 1, 'cap': cap}})
    cexs = []
    for r in ctx.run_jobs(J, timeout=1500 if ctx.quick else 7200):
        cexs += ctx.absorb(r)
    ctx.replay_all(cexs, MOD, 'replay')
    ctx.cov['explanation'] = ('allocate_confidence_map on symbolic bands (append-only, names, existing bands / cost volume / disparity map bit-identical, with and '
                              'without a cost volume, 0-3 existing bands); the numba kernels compute_ambiguity, compute_ambiguity_and_sampled_ambiguity + '
                              'compute_risk and compute_interval_bounds run from source on a symbolic cost volume (NaN holes, ties, min and max measures): '
                              'definitions as stated, 0 <= risk_min <= risk_max, inf <= winner <= sup; interval_regularization + graph kernels with '
                              'quantile 1 only widen and do not modify the ambiguity band handed in (segment borders concretised by forking)')
    ctx.cov['explanation'] += '; std_intensity: the band is NaN on the border and sqrt(variance of the left window) elsewhere (sqrt uninterpreted with s >= 0, s*s == x; the argument the code passes is proved equal to the window variance)'
    ctx.assumptions += ['C12: percentile normalisation of the ambiguity is outside the harness; std_intensity with reals-for-floats; normalised costs use real '
                        'arithmetic with pinned global extremes; one fully symbolic pixel between two concrete ones per kernel run']


def replay(body):
    from vf.common import Ctx
    import json, shutil
    ctx = Ctx('C12', 'quick', 0)
    r = ctx.run_job({'mod': MOD, 'fn': 'replay', 'mode': 'plain', 'args': {'cex': body['cex']}}, 900)
    print(json.dumps({k: v for k, v in r.items() if k != 'job'}, indent=1))
    shutil.rmtree(ctx.scratch, ignore_errors=True)
    return 1 if r.get('violates') else 0
