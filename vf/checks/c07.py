"""C07 cross-checking: the real disparity_checking executed symbolically (forking per pixel class) on one-row maps."""
import itertools
MOD = 'vf.harness.c07'


def jobs(ctx):
    J = []
    blk = ctx.known_ids

    def ex(W, dmin, dmax, thr='1', prefix=(), **kw):
        a = {'W': W, 'dmin': dmin, 'dmax': dmax, 'thr': thr, 'prefix': list(prefix), 'block': blk, 'cap': 60 if ctx.quick else 300}
        a.update(kw)
        J.append({'mod': MOD, 'fn': 'xcheck_exact', 'mode': 'sym', 'args': a})
    # quick: 2 and 3 columns, symmetric and asymmetric intervals, several thresholds, second call on the same validator
    ex(2, -1, 1); ex(2, -2, 0, '0'); ex(2, 0, 2, '1/2'); ex(2, -1, 1, 'sym')
    ex(3, -1, 1); ex(3, -2, 0, '5/2', warm=True); ex(3, 0, 1, '1', warm=True)
    ex(3, -1, 1, H=3, offset=1); ex(2, -1, 1, conf_band=True)
    ex(3, -1, 1, col0=7); ex(2, -2, 0, '1', col0=2)       # column coordinates not starting at 0 (ROI datasets)
    if not ctx.quick:
        for (a, b) in ((-2, 2), (-3, -1), (1, 2), (0, 0)):
            ex(3, a, b, '1'); ex(3, a, b, 'sym', warm=True)
        for pre in itertools.product((True, False), repeat=4):
            ex(4, -1, 1, '1', prefix=pre); ex(4, -2, 1, 'sym', prefix=pre, warm=True)
        ex(4, -1, 1, H=3, offset=1); ex(5, -1, 1, H=5, offset=2)
        # bit-precise float32 variant on the smallest map (hard queries: long caps)
        J.append({'mod': MOD, 'fn': 'xcheck', 'mode': 'sym', 'args': {'W': 1, 'dmin': -1, 'dmax': 1, 'thr': '1.0', 'cap': 600, 'block': blk}})
    return J


def main(ctx):
    ctx.level = 'other'
    cexs = []
    for r in ctx.run_jobs(jobs(ctx), timeout=1500 if ctx.quick else 5400):
        cexs += ctx.absorb(r)
    ctx.replay_all(cexs, MOD, 'replay')
    ctx.cov['explanation'] = ('real CrossCheckingAccurate.disparity_checking (+ allocate_confidence_map, mask_border) executed symbolically on a '
                              'symbolic row of left/right disparities, both validity masks and (optionally) the threshold; data-dependent '
                              'selections fork, every path ends with z3 queries comparing flags / confidence / untouched disparities with the '
                              'statement-derived oracle; exact value domain (disparities multiples of 1/64) makes float32 arithmetic exact; '
                              'unsat on every path = the statement holds for every map within the bound')


def replay(body):
    from vf.common import Ctx
    import json, shutil
    ctx = Ctx('C07', 'quick', 0)
    r = ctx.run_job({'mod': MOD, 'fn': 'replay', 'mode': 'plain', 'args': {'cex': body['cex']}}, 600)
    print(json.dumps({k: v for k, v in r.items() if k != 'job'}, indent=1))
    shutil.rmtree(ctx.scratch, ignore_errors=True)
    return 1 if r.get('violates') else 0
