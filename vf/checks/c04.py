"""C04: validity flags, NaN costs and invalid disparities tell one coherent story; later steps only add their own bits."""


def main(ctx):
    ctx.level = 'other'
    cap = 60 if ctx.quick else 300
    J = []
    # family 1: coherence on the real matching-cost + winner-takes-all chain (symbolic images and masks)
    def cvj(**kw):
        kw['cap'] = cap
        J.append({'mod': 'vf.harness.c02', 'fn': 'cost_volume', 'mode': 'sym', 'args': kw})
    cvj(); cvj(ws=1, H=2, W=5, dmin=-2, dmax=-1); cvj(dmin=1, dmax=2); cvj(method='census', masks=True, H=3, W=5, dmin=-1, dmax=0)
    cvj(grids=True, masks=True, H=3, W=5); cvj(lcodes=[0, 1], rcodes=[3, 2], H=3, W=5, dmin=0, dmax=1)
    cvj(dmin=-2, dmax=-1, masks=False); cvj(dmin=-3, dmax=-1, W=7, masks=False)      # strictly negative interval with a 3x3 window
    if not ctx.quick:
        cvj(ws=3, H=4, W=7, dmin=-2, dmax=2); cvj(ws=5, H=5, W=7, dmin=-1, dmax=0); cvj(method='ssd', H=3, W=6, dmin=-2, dmax=0)
        cvj(dmin=-3, dmax=-2, W=7); cvj(dmin=2, dmax=3, W=7); cvj(grids=True, method='census', masks=True, H=3, W=6)
    # the disparity step leaves NaN where costs are not computable (min and max measures): later steps rely on it
    for m in ('min', 'max'):
        J.append({'mod': 'vf.harness.c03', 'fn': 'wta', 'mode': 'sym', 'args': {'R': 2, 'C': 2, 'D': 3, 'measure': m, 'cap': cap}})
        J.append({'mod': 'vf.harness.c03', 'fn': 'wta', 'mode': 'sym', 'args': {'R': 1, 'C': 2, 'D': 3, 'measure': m, 'invalid': 'nan', 'cap': cap}})
    # family 2: bit discipline of the later steps from an arbitrary valid pre-mask (one inductive step each: covers repeated steps)
    for method in ('vfit', 'quadratic'):
        for k in (0, 1):
            J.append({'mod': 'vf.harness.c06', 'fn': 'refine_real', 'mode': 'sym', 'args': {'method': method, 'measure': 'min', 'subpix': 1, 'D': 3, 'k': k, 'cap': cap}})
    J.append({'mod': 'vf.harness.c07', 'fn': 'xcheck_exact', 'mode': 'sym', 'args': {'W': 2, 'dmin': -1, 'dmax': 1, 'thr': '1', 'cap': cap, 'block': ctx.known_ids + ['KF-C07-outside-mismatch']}})
    J.append({'mod': 'vf.harness.c07', 'fn': 'xcheck_exact', 'mode': 'sym', 'args': {'W': 3, 'dmin': -1, 'dmax': 1, 'H': 3, 'offset': 1, 'cap': cap, 'block': ['KF-C07-outside-mismatch']}})
    for method in ('mc-cnn', 'sgm'):
        J.append({'mod': 'vf.harness.c14', 'fn': 'fill', 'mode': 'sym', 'args': {'method': method, 'H': 1, 'W': 3, 'cap': cap}})
    J.append({'mod': 'vf.harness.c10', 'fn': 'intervals_flag', 'mode': 'sym', 'args': {'cap': cap}})
    by_mod = {}
    for r in ctx.run_jobs(J, timeout=1500 if ctx.quick else 5400):
        for cx in ctx.absorb(r):
            if cx.get('known'):
                continue        # findings of other properties are reported by their own checks
            by_mod.setdefault(r['job']['mod'], []).append(cx)
    for mod, cexs in by_mod.items():
        ctx.replay_all(cexs, mod, 'replay')
    ctx.cov['explanation'] = ('family 1: the real matching-cost chain + winner-takes-all on symbolic images/masks (one path): invalid flag <=> all costs NaN <=> '
                              'invalid disparity, border pixels == bit 0 only, each of bits 0,6,2,7,1 <=> its documented cause, nothing >= 4096; '
                              'family 2: each later step (refinement, cross-checking, both fillings, median_for_intervals) from an arbitrary pre-mask < 4096: '
                              'only its documented bits change (inductive step, so repeated steps and every legal order are covered)')


def replay(body):
    from vf.common import Ctx
    import json, shutil
    ctx = Ctx('C04', 'quick', 0)
    mod = body['cex']['job']['mod']
    r = ctx.run_job({'mod': mod, 'fn': 'replay', 'mode': 'plain', 'args': {'cex': body['cex']}}, 900)
    print(json.dumps({k: v for k, v in r.items() if k != 'job'}, indent=1))
    shutil.rmtree(ctx.scratch, ignore_errors=True)
    return 1 if r.get('violates') else 0
