"""C10: filters change only valid pixels, to a median of their valid neighbours; block independent."""
MOD = 'vf.harness.c10'


def main(ctx):
    ctx.level = 'other'
    cap = 120 if ctx.quick else 600
    J = []

    def m(**kw):
        kw['cap'] = cap; kw.setdefault('seed', ctx.seed)
        J.append({'mod': MOD, 'fn': 'median', 'mode': 'sym', 'args': kw})
    m(R=3, C=3); m(R=3, C=4); m(R=1, C=3, fs=1)
    # block boundaries of the 100-pixel processing blocks: symbolic stripe across the boundary, rest concrete
    m(R=3, C=102, stripe=[1, 100, 101]); m(R=102, C=3, stripe=[0, 100, 101]); m(R=3, C=103, stripe=[1, 101, 102])
    J.append({'mod': MOD, 'fn': 'intervals', 'mode': 'sym', 'args': {'regularization': True, 'cap': cap}})
    J.append({'mod': MOD, 'fn': 'intervals', 'mode': 'sym', 'args': {'regularization': False, 'cap': cap}})
    # the configured filter size is the one applied to the bound bands (1: bands unchanged; 5: wider edge band)
    J.append({'mod': MOD, 'fn': 'intervals', 'mode': 'sym', 'args': {'R': 3, 'C': 3, 'fs': 1, 'regularization': False, 'cap': cap}})
    J.append({'mod': MOD, 'fn': 'bilateral', 'mode': 'sym', 'args': {'cap': cap}})
    J.append({'mod': MOD, 'fn': 'bilateral', 'mode': 'sym', 'args': {'R': 4, 'C': 3, 'sigma_space': 0.4, 'cap': cap}})
    # bilateral value (documented weighted mean) on concrete masks, symbolic disparities
    J.append({'mod': MOD, 'fn': 'bilateral', 'mode': 'sym', 'args': {'value': True, 'conc_mask': [0, 1, 0, 0, 0, 0, 0, 0, 64], 'cap': 60}})
    J.append({'mod': MOD, 'fn': 'bilateral', 'mode': 'sym', 'args': {'value': True, 'conc_mask': [0] * 12, 'R': 3, 'C': 4, 'sigma_color': 1.5, 'cap': 60}})
    J.append({'mod': MOD, 'fn': 'bilateral', 'mode': 'sym', 'args': {'value': True, 'conc_mask': 'random', 'R': 4, 'C': 4, 'seed': ctx.seed, 'cap': 60}})
    # even window (int(3 sigma + 1) == 4): the spatial kernel is centred on pixel win // 2
    J.append({'mod': MOD, 'fn': 'bilateral', 'mode': 'sym', 'args': {'value': True, 'conc_mask': [0] * 25, 'R': 5, 'C': 5, 'sigma_space': 1.0, 'cap': 120}})
    # 50-pixel processing blocks of the bilateral filter
    J.append({'mod': MOD, 'fn': 'bilateral_blocks', 'mode': 'sym', 'args': {'axis': 1, 'N': 53, 'lo': 47, 'hi': 53, 'cap': cap}})
    J.append({'mod': MOD, 'fn': 'bilateral_blocks', 'mode': 'sym', 'args': {'axis': 0, 'N': 52, 'lo': 46, 'hi': 52, 'cap': cap}})
    # a whole leading block without valid pixels, then two more blocks
    J.append({'mod': MOD, 'fn': 'bilateral_blocks', 'mode': 'sym', 'args': {'axis': 1, 'N': 104, 'lo': 98, 'hi': 104, 'invalid_upto': 52, 'cap': cap}})
    J.append({'mod': MOD, 'fn': 'bilateral_blocks', 'mode': 'sym', 'args': {'axis': 0, 'N': 104, 'lo': 49, 'hi': 55, 'invalid_upto': 48, 'cap': cap}})
    if not ctx.quick:
        J.append({'mod': MOD, 'fn': 'bilateral', 'mode': 'sym', 'args': {'value': True, 'conc_mask': 'random', 'R': 5, 'C': 5, 'sigma_space': 1.4, 'seed': ctx.seed + 1, 'cap': 300}})
        J.append({'mod': MOD, 'fn': 'bilateral_blocks', 'mode': 'sym', 'args': {'axis': 1, 'N': 103, 'lo': 97, 'hi': 103, 'cap': cap}})
        J.append({'mod': MOD, 'fn': 'bilateral_blocks', 'mode': 'sym', 'args': {'axis': 0, 'N': 101, 'lo': 96, 'hi': 101, 'cap': cap}})
        m(R=4, C=4); m(R=5, C=5, fs=5, stripe=[1, 2, 3]); m(R=3, C=202, stripe=[1, 199, 201]); m(R=201, C=3, stripe=[0, 199, 201])
        m(R=5, C=104, fs=5, stripe=[1, 101, 102]); m(R=3, C=101, stripe=[1, 98, 101]); m(R=3, C=100, stripe=[1, 97, 100])
        J.append({'mod': MOD, 'fn': 'intervals', 'mode': 'sym', 'args': {'R': 3, 'C': 4, 'regularization': False, 'cap': cap}})
        J.append({'mod': MOD, 'fn': 'intervals', 'mode': 'sym', 'args': {'R': 5, 'C': 5, 'fs': 5, 'regularization': False, 'cap': cap}})
        J.append({'mod': MOD, 'fn': 'bilateral', 'mode': 'sym', 'args': {'R': 4, 'C': 4, 'sigma_space': 0.7, 'cap': cap}})
    cexs = []
    for r in ctx.run_jobs(J, timeout=1500 if ctx.quick else 7200):
        cexs += ctx.absorb(r)
    ctx.replay_all(cexs, MOD, 'replay')
    ctx.cov['explanation'] = ('real MedianFilter.filter_disparity / median_filter / sliding_window, MedianForIntervalsFilter.filter_disparity and '
                              'BilateralFilter.filter_disparity executed on symbolic disparity maps (exact domain) and symbolic validity masks in one path '
                              '(masked stores are ite-merges, numpy nanmedian is a sorting network); oracle independent of that network: mask unchanged, '
                              'invalid pixels and the edge band untouched, a valid interior pixel becomes a value satisfying the order-statistics '
                              'definition of the median of the valid window values; shapes straddling the 100-pixel blocks with a symbolic stripe across '
                              'the boundary; median_for_intervals: same median on the bound bands, only bit 11 may be raised (regularisation stubbed)')
    ctx.cov['explanation'] += ('; bilateral: frame conditions on symbolic masks; value == documented weighted mean (result * sum w == sum w d, w = spatial '
                               'Gaussian x range Gaussian) on concrete mask patterns with symbolic disparities, decided as a QF_NRA identity after replacing '
                               'the uninterpreted exp atoms (matched to the documented arguments by solver lemmas) by fresh positive reals; independence from '
                               'the 50-pixel blocks by comparing a block-straddling map with a single-block crop in one symbolic run')
    ctx.assumptions += ['C10 (bilateral): reals-for-floats; "between min and max of the window" follows mathematically from the weighted-mean identity with positive weights, it is not a separate query; '
                        'value jobs use concrete validity masks']


def replay(body):
    from vf.common import Ctx
    import json, shutil
    ctx = Ctx('C10', 'quick', 0)
    r = ctx.run_job({'mod': MOD, 'fn': 'replay', 'mode': 'plain', 'nojit': True, 'args': {'cex': body['cex']}}, 600)
    print(json.dumps({k: v for k, v in r.items() if k != 'job'}, indent=1))
    shutil.rmtree(ctx.scratch, ignore_errors=True)
    return 1 if r.get('violates') else 0
