"""C10: filters change only valid pixels, to a median of their valid neighbours; block independent."""
MOD = 'vf.harness.c10'


def main(ctx):
    ctx.level = 'other'
    cap = 120 if ctx.quick else 600
    J = []

    def m(**kw):
        kw['cap'] = cap; kw.setdefault('seed', ctx.seed)
        J.append({'mod': MOD, 'fn': 'median', 'mode': 'sym', 'args': kw})
    m(R=3, C=3); m(R=3, C=4); m(R=1, C=3, fs=1)
    # block boundaries of the 100-pixel processing blocks: symbolic stripe across the boundary, rest concrete
    m(R=3, C=102, stripe=[1, 100, 101]); m(R=102, C=3, stripe=[0, 100, 101]); m(R=3, C=103, stripe=[1, 101, 102])
    J.append({'mod': MOD, 'fn': 'intervals', 'mode': 'sym', 'args': {'regularization': True, 'cap': cap}})
    J.append({'mod': MOD, 'fn': 'intervals', 'mode': 'sym', 'args': {'regularization': False, 'cap': cap}})
    J.append({'mod': MOD, 'fn': 'bilateral', 'mode': 'sym', 'args': {'cap': cap}})
    J.append({'mod': MOD, 'fn': 'bilateral', 'mode': 'sym', 'args': {'R': 4, 'C': 3, 'sigma_space': 0.4, 'cap': cap}})
    if not ctx.quick:
        m(R=4, C=4); m(R=5, C=5, fs=5, stripe=[1, 2, 3]); m(R=3, C=202, stripe=[1, 199, 201]); m(R=201, C=3, stripe=[0, 199, 201])
        m(R=5, C=104, fs=5, stripe=[1, 101, 102]); m(R=3, C=101, stripe=[1, 98, 101]); m(R=3, C=100, stripe=[1, 97, 100])
        J.append({'mod': MOD, 'fn': 'intervals', 'mode': 'sym', 'args': {'R': 3, 'C': 4, 'regularization': False, 'cap': cap}})
        J.append({'mod': MOD, 'fn': 'bilateral', 'mode': 'sym', 'args': {'R': 4, 'C': 4, 'sigma_space': 0.7, 'cap': cap}})
    cexs = []
    for r in ctx.run_jobs(J, timeout=1500 if ctx.quick else 7200):
        cexs += ctx.absorb(r)
    ctx.replay_all(cexs, MOD, 'replay')
    ctx.cov['explanation'] = ('real MedianFilter.filter_disparity / median_filter / sliding_window, MedianForIntervalsFilter.filter_disparity and '
                              'BilateralFilter.filter_disparity executed on symbolic disparity maps (exact domain) and symbolic validity masks in one path '
                              '(masked stores are ite-merges, numpy nanmedian is a sorting network); oracle independent of that network: mask unchanged, '
                              'invalid pixels and the edge band untouched, a valid interior pixel becomes a value satisfying the order-statistics '
                              'definition of the median of the valid window values; shapes straddling the 100-pixel blocks with a symbolic stripe across '
                              'the boundary; median_for_intervals: same median on the bound bands, only bit 11 may be raised (regularisation stubbed)')
    ctx.assumptions += ['C10: the value of the bilateral weighted mean (min <= result <= max) is NOT decided (nonlinear real arithmetic beyond the caps); '
                        'for bilateral only mask / invalid-pixel / edge-band preservation and finiteness are claimed']


def replay(body):
    from vf.common import Ctx
    import json, shutil
    ctx = Ctx('C10', 'quick', 0)
    r = ctx.run_job({'mod': MOD, 'fn': 'replay', 'mode': 'plain', 'nojit': True, 'args': {'cex': body['cex']}}, 600)
    print(json.dumps({k: v for k, v in r.items() if k != 'job'}, indent=1))
    shutil.rmtree(ctx.scratch, ignore_errors=True)
    return 1 if r.get('violates') else 0
