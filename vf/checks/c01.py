"""C01: accepted pipelines == documented automaton (BMC, complete with unwinding assertion) and run as written (real machine, EUF stubs)."""
from .e3common import run_e3, MOD, replay as _replay


def main(ctx):
    ctx.level = 'model_checking'
    c = ctx.cov
    # (a) table level
    pre = ctx.run_jobs([{'mod': MOD, 'fn': 'bmc', 'mode': 'plain', 'nojit': True, 'args': {}},
                        {'mod': MOD, 'fn': 'libval', 'mode': 'plain', 'nojit': True, 'args': {'maxlen': 4 if ctx.quick else 5}}], 1800)
    r = [x for x in pre if x['job']['fn'] == 'bmc'][0]
    lv = [x for x in pre if x['job']['fn'] == 'libval'][0]
    cexs = []
    if r.get('error'):
        ctx.harness_errors.append('bmc: %s' % r['error'])
    else:
        c['obligations'] += r['obligations']; c['discharged'] += r['discharged']; c['queries'] += r['queries']
        c['solver_s'] += r['solver_s']; c['states'] = r['states']; c['transitions'] = r['transitions']
        c['vacuity_witnesses']['bmc'] = r['witness']
        if r['witness'].get('accepted-word-of-length-5') != 'sat':
            ctx.harness_errors.append('bmc vacuity witness not sat')
        c['bounds']['bmc'] = {'word_length': r['N'], 'complete': 'recurrence-diameter unwinding assertion discharged' if not r['inconclusive'] else 'NOT complete'}
        for i in r['inconclusive']:
            c['inconclusive'] += 1; c['inconclusive_list'].append(i)
        for cx in r['cex']:
            if 'word' in cx:
                cexs.append(dict(cx, harness='e3.bmc'))
            else:
                ctx.direct_violation('table-level: %s %s' % (cx['name'], {k: v for k, v in cx.items() if k != 'name'}), cx)
        c['samples'].append({'bmc_witness_word': r.get('witness_word')})
    # encoding validation against the real transitions library
    if lv.get('error'):
        ctx.harness_errors.append('libval: %s' % lv['error'])
    else:
        c['traces_validated_against_impl'] = lv['words']
        c['library_validation'] = {'words': lv['words'], 'disagreements': lv['disagreements']}
        for d in lv['disagreements']:
            if d.get('library') == d.get('encoding'):
                cexs.append({'name': 'language-equivalence', 'word': d['word'], 'harness': 'e3.libval'})
            else:
                ctx.harness_errors.append('table encoding disagrees with the transitions library on %s' % d)
    # (b) execution level
    if ctx.quick:
        cexs += run_e3(ctx, 'C01', 5, ms_variants=((2, 2), (3, 2)), suffix_styles=(0, 3, 4), fillings=(False, True))
    else:
        cexs += run_e3(ctx, 'C01', 7, ms_variants=((2, 2), (3, 2), (2, 3), (3, 3)), suffix_styles=(0, 1, 2, 3, 4), fillings=(False, True))
    # known finding: a suffix on the FIRST occurrence of a step kind (legal by the 'stepname.xxx' convention) is rejected for the kinds the code
    # looks up by their literal name; exhibited by its own small run, blocked only there
    if 'KF-C01-suffixed-first-occurrence' in ctx.known_ids:
        cexs += run_e3(ctx, 'C01', 3, ms_variants=((2, 2),), suffix_styles=(5,), fillings=(False,), histories=False, mirror=False, chunks=4)
    ctx.replay_all(cexs, MOD, 'replay')
    c['explanation'] = ('(a) live transition tables -> z3 transition relation; language equivalence with the documented automaton by BMC '
                        'over a symbolic word of length |Q|^2+1 with the recurrence-diameter unwinding assertion (so the bound is complete), '
                        'check/run tables mirror each other up to the documented multiscale destination; (b) the real PandoraMachine, '
                        'check_conf, pandora.run and all step callbacks executed on solver-enumerated words with EUF stub step classes; '
                        'log order/multiplicity, state/events reset and identity of repeated runs decided on the resulting z3 terms')
    ctx.assumptions += ['step classes replaced by EUF stubs (parameter validity of the real classes is C05)', 'plugins out of scope']


def replay(body):
    return _replay(body, 'C01')
