"""C19: saved products equal the computed ones, saved configuration replays."""
MOD = 'vf.harness.c19'


def main(ctx):
    ctx.level = 'other'
    from vf.harness.c19 import VARIANTS
    cap = 30 if ctx.quick else 120
    J = []
    for kw in ([dict(), dict(with_right=False), dict(K=0), dict(right_conf=False), dict(R=3, C=2, K=3)] +
               ([] if ctx.quick else [dict(R=4, C=5, K=4), dict(R=1, C=1, K=1), dict(R=3, C=3, K=2, with_right=False)])):
        kw['cap'] = cap
        J.append({'mod': MOD, 'fn': 'save', 'mode': 'sym', 'args': kw})
    for v in VARIANTS:
        J.append({'mod': MOD, 'fn': 'roundtrip', 'mode': 'plain', 'nojit': True, 'args': {'variant': v}})
    cexs = []
    for r in ctx.run_jobs(J, timeout=900):
        cexs += ctx.absorb(r)
    ctx.replay_all(cexs, MOD, 'replay')
    ctx.cov['explanation'] = ('save_results / write_data_array executed on symbolic products (any float32 disparity/confidence, any uint16 mask) with a '
                              'recording writer: z3 decides that every band handed to the writer equals the in-memory product, dtypes, band names == '
                              'indicators, per-side georeferencing, right_* files iff the right dataset is non-empty; plus concrete end-to-end witnesses of '
                              'pandora.main on small real GeoTIFFs: files on disk == independent in-memory run, cfg/config.json loadable, records the '
                              'margins, is accepted when fed back and reproduces the rasters (integer interval with/without validation, NaN '
                              'invalid_disparity, disparity grids, confidence bands)')
    ctx.assumptions += ['C19: bytes written/read by GDAL are outside the solver claim (recording stub); the end-to-end part is a concrete witness, not a proof']


def replay(body):
    from vf.common import Ctx
    import json, shutil
    ctx = Ctx('C19', 'quick', 0)
    r = ctx.run_job({'mod': MOD, 'fn': 'replay', 'mode': 'plain', 'nojit': True, 'args': {'cex': body['cex']}}, 600)
    print(json.dumps({k: v for k, v in r.items() if k != 'job'}, indent=1))
    shutil.rmtree(ctx.scratch, ignore_errors=True)
    return 1 if r.get('violates') else 0
