"""C19: saved products equal the computed ones, saved configuration replays."""
MOD = 'vf.harness.c19'


def main(ctx):
    ctx.level = 'other'
    from vf.harness.c19 import VARIANTS
    cap = 30 if ctx.quick else 120
    J = []
    for kw in ([dict(), dict(with_right=False), dict(K=0), dict(right_conf=False), dict(R=3, C=2, K=3)] +
               ([] if ctx.quick else [dict(R=4, C=5, K=4), dict(R=1, C=1, K=1), dict(R=3, C=3, K=2, with_right=False)])):
        kw['cap'] = cap
        J.append({'mod': MOD, 'fn': 'save', 'mode': 'sym', 'args': kw})
    for v in VARIANTS:
        J.append({'mod': MOD, 'fn': 'roundtrip', 'mode': 'plain', 'nojit': True, 'args': {'variant': v}})
    cexs = []
    for r in ctx.run_jobs(J, timeout=900):
        cexs += ctx.absorb(r)
    ctx.replay_all(cexs, MOD, 'replay')
    # the configuration saved after a run replays (E3: real machine, EUF stub steps carrying a fingerprint of the configuration they were
    # built with; suffixed / repeated steps, multiscale, filling): accepted on a fresh machine, same steps, same band names, same products
    from vf.checks import e3common
    c3 = e3common.run_e3(ctx, 'C19', 4 if ctx.quick else 6, word_filter=lambda w: 4 in w or 9 in w or len(w) != len(set(w)) or len(w) <= 3,
                         ms_variants=((2, 2),) if ctx.quick else ((2, 2), (3, 2)), suffix_styles=(0, 4) if ctx.quick else (0, 1, 3, 4),
                         fillings=(False, True), histories=True, mirror=False, chunks=8)
    ctx.replay_all(c3, e3common.MOD, 'replay')
    ctx.cov['explanation'] = ('save_results / write_data_array executed on symbolic products (any float32 disparity/confidence, any uint16 mask) with a '
                              'recording writer: z3 decides that every band handed to the writer equals the in-memory product, dtypes, band names == '
                              'indicators, per-side georeferencing, right_* files iff the right dataset is non-empty; plus concrete end-to-end witnesses of '
                              'pandora.main on small real GeoTIFFs: files on disk == independent in-memory run, cfg/config.json loadable, records the '
                              'margins, is accepted when fed back and reproduces the rasters (integer interval with/without validation, NaN '
                              'invalid_disparity, disparity grids, confidence bands); plus E3: the real PandoraMachine with EUF stub steps on every '
                              'accepted word up to the bound -- the configuration object as the run left it, passed through JSON, is accepted by a fresh '
                              'machine and gives the same step log, the same confidence indicators (band names) and the same product terms (z3 validity)')
    ctx.assumptions += ['C19: bytes written/read by GDAL are outside the solver claim (recording stub); the end-to-end part is a concrete witness, not a proof']


def replay(body):
    from vf.common import Ctx
    import json, shutil
    if body['cex'].get('harness') == 'e3.run_words':
        from vf.checks import e3common
        return e3common.replay(body, 'C19')
    ctx = Ctx('C19', 'quick', 0)
    r = ctx.run_job({'mod': MOD, 'fn': 'replay', 'mode': 'plain', 'nojit': True, 'args': {'cex': body['cex']}}, 600)
    print(json.dumps({k: v for k, v in r.items() if k != 'job'}, indent=1))
    shutil.rmtree(ctx.scratch, ignore_errors=True)
    return 1 if r.get('violates') else 0
