"""C18: reproducible, schedule-independent, side-effect free runs."""
from .e3common import run_e3, OWN
MOD = 'vf.harness.c18'

OWN['C18'] = ['second-check-same-machine-identical', 'second-run-same-machine-identical', 'after-run-initial-state-no-leftover-transitions',
              'after-check-initial-state-no-leftover-transitions', 'history-other-pipeline-checked-before-same-steps-same-order',
              'history-other-pipeline-checked-before-run-as-configured', 'history-other-pipeline-run-before-run-as-configured',
              'history-other-pipeline-run-before-same-products-as-fresh-machine', 'history-other-pipeline-run-before-right-dataset-empty-without-validation']


def main(ctx):
    ctx.level = 'other'
    cap = 120 if ctx.quick else 600
    J = []
    # (1) prange schedules: forwards vs backwards
    for method in ('vfit', 'quadratic'):
        for measure in (('min',) if ctx.quick and method == 'quadratic' else ('min', 'max')):
            J.append({'mod': MOD, 'fn': 'order', 'mode': 'sym', 'args': {'kernel': 'refinement', 'method': method, 'measure': measure, 'cap': cap}})
    J.append({'mod': MOD, 'fn': 'order', 'mode': 'sym', 'args': {'kernel': 'approximate_refinement', 'method': 'vfit', 'cap': cap}})
    for k in ('sampled_ambiguity', 'sampled_risk', 'bounds'):      # one symbolic pixel: forward / backward value identity
        J.append({'mod': MOD, 'fn': 'order', 'mode': 'sym', 'args': {'kernel': k, 'R': 1, 'C': 3, 'cap': cap}})
    # several rows (the outermost prange, over rows, is the one distributed over threads): the access sets of different rows must not
    # conflict (shared scratch buffers, accumulators); concrete background data, NaN holes included
    for k in ('ambiguity', 'sampled_ambiguity', 'risk', 'sampled_risk', 'bounds'):
        J.append({'mod': MOD, 'fn': 'order', 'mode': 'sym', 'args': {'kernel': k, 'R': 3, 'C': 2, 'concrete': True, 'cap': cap}})
    J.append({'mod': MOD, 'fn': 'order', 'mode': 'sym', 'args': {'kernel': 'graph', 'R': 2, 'C': 3, 'cap': cap}})
    if not ctx.quick:
        J.append({'mod': MOD, 'fn': 'order', 'mode': 'sym', 'args': {'kernel': 'refinement', 'method': 'vfit', 'R': 2, 'C': 3, 'D': 4, 'cap': cap}})
        J.append({'mod': MOD, 'fn': 'order', 'mode': 'sym', 'args': {'kernel': 'approximate_refinement', 'method': 'quadratic', 'R': 2, 'C': 3, 'cap': cap}})
        for k in ('ambiguity', 'sampled_risk', 'bounds'):
            J.append({'mod': MOD, 'fn': 'order', 'mode': 'sym', 'args': {'kernel': k, 'R': 3, 'C': 2, 'cap': cap}})
        J.append({'mod': MOD, 'fn': 'order', 'mode': 'sym', 'args': {'kernel': 'graph', 'R': 3, 'C': 3, 'cap': cap}})
    # (2) the caller's datasets stay untouched by the image preparation of a multiscale run
    for b in (0, 2):
        J.append({'mod': MOD, 'fn': 'inputs_untouched', 'mode': 'sym', 'args': {'bands': b, 'cap': cap}})
    # ... and by the image preparation of the cross-based aggregation (masking + median prefilter work on copies)
    J.append({'mod': MOD, 'fn': 'cbca_inputs', 'mode': 'sym', 'args': {'cap': cap}})
    if not ctx.quick:
        J.append({'mod': MOD, 'fn': 'cbca_inputs', 'mode': 'sym', 'args': {'H': 3, 'W': 4, 'subpix': 2, 'cap': cap}})
        J.append({'mod': MOD, 'fn': 'inputs_untouched', 'mode': 'sym', 'args': {'bands': 3, 'R': 3, 'C': 4, 'cap': cap}})
    # (2b) a filter's result does not depend on filters run before in the process (other sigma_space, same window width)
    J.append({'mod': 'vf.harness.c10', 'fn': 'bilateral', 'mode': 'sym', 'args': {'value': True, 'conc_mask': [0] * 9, 'sigma_space': 0.7, 'pre_sigma': 0.9, 'cap': 60}})
    # (3) class-level schema dictionaries shared between step classes: acceptance of a class does not depend on the classes checked before
    hist = [('census', ['window_size'], [('sad', {'window_size': 7}), ('zncc', {'window_size': 9})]),
            ('sad', ['window_size', 'subpix'], [('census', {'window_size': 3}), ('sad', {'window_size': 4})]),
            ('zncc', ['window_size'], [('census', {'window_size': 5, 'subpix': 4})]),
            ('median', ['filter_size'], [('median_for_intervals', {'filter_size': 5}), ('bilateral', {})]),
            ('interval_bounds', ['possibility_threshold', 'ambiguity_kernel_size'], [('ambiguity', {'eta_max': 0.3}), ('risk', {})]),
            ('risk', ['eta_max', 'eta_step'], [('ambiguity', {'eta_max': 0.2, 'eta_step': 0.05})])]
    for cls, params, pre in hist:
        J.append({'mod': 'vf.harness.c05', 'fn': 'step_class', 'mode': 'sym', 'nojit': True, 'args': {'cls': cls, 'params': params, 'pre': pre, 'cap': cap}})
    cexs = []
    for r in ctx.run_jobs(J, timeout=1500 if ctx.quick else 7200):
        for cx in ctx.absorb(r):
            cx['harness'] = r['job']['mod']
            cexs.append(cx)
    own = [c for c in cexs if c['harness'] == MOD]
    c05 = [c for c in cexs if c['harness'] == 'vf.harness.c05']
    c10 = [c for c in cexs if c['harness'] == 'vf.harness.c10']
    ctx.replay_all(own, MOD, 'replay')
    ctx.replay_all(c05, 'vf.harness.c05', 'replay')
    ctx.replay_all(c10, 'vf.harness.c10', 'replay')
    # (4) histories on machine objects: repeated checks/runs, other pipelines checked before (E3, real PandoraMachine with EUF stubs)
    e3 = run_e3(ctx, 'C18', 4 if ctx.quick else 6, ms_variants=((2, 2),), suffix_styles=(0,), fillings=(False,), mirror=False)
    ctx.replay_all(e3, 'vf.harness.e3jobs', 'replay')
    ctx.cov['explanation'] = ('(1) every prange kernel (loop_refinement, loop_approximate_refinement with the real vfit/quadratic methods; ambiguity, '
                              'risk, interval-bounds kernels; graph kernels of the interval regularisation) is executed from source twice in one '
                              'symbolic path on the same symbolic inputs with the parallel loops iterating forwards and backwards; z3 decides that '
                              'the outputs are identical; (2) fill_nodata_image/interpolate_nodata_sgm on a symbolic image and mask: the caller\'s '
                              'arrays keep their terms; (3) check_conf of step classes after other classes of the same family were instantiated; '
                              '(4) real PandoraMachine histories with EUF stubs: second check / second run identical, no leftovers')
    ctx.assumptions += ['C18: real thread interleavings, numba reduction inference and thread counts are not executable symbolically: the two extreme '
                        'sequential schedules of every prange loop stand for them (loop-carried state and overlapping writes are what they detect)',
                        'C18: bit-identical products across processes / GDAL, attribute and coordinate preservation by pandora.run end to end are outside the solver claim '
                        '(attributes/coordinates of the inputs are covered for fill_nodata_image only)']


def replay(body):
    from vf.common import Ctx
    import json, shutil
    ctx = Ctx('C18', 'quick', 0)
    cex = body['cex']
    mod = cex.get('harness', MOD)
    if mod.startswith('e3'):
        mod = 'vf.harness.e3jobs'
    r = ctx.run_job({'mod': mod, 'fn': 'replay', 'mode': 'plain', 'args': {'cex': cex}}, 900)
    print(json.dumps({k: v for k, v in r.items() if k != 'job'}, indent=1))
    shutil.rmtree(ctx.scratch, ignore_errors=True)
    return 1 if r.get('violates') else 0
