"""C14 occlusion/mismatch filling: the four real kernels executed symbolically on small maps (masks and disparities symbolic)."""
import itertools
MOD = 'vf.harness.c14'


def jobs(ctx):
    J = []
    cap = 60 if ctx.quick else 300

    def f(method, H, W, prefix=()):
        J.append({'mod': MOD, 'fn': 'fill', 'mode': 'sym', 'args': {'method': method, 'H': H, 'W': W, 'cap': cap, 'prefix': list(prefix), 'block': ctx.known_ids}})
    for method in ('mc-cnn', 'sgm'):
        f(method, 1, 3); f(method, 3, 1)
        for pre in itertools.product((True, False), repeat=2):
            f(method, 2, 2, pre)
        # one slice of the 6-pixel maps in the quick tier too (two flagged pixels whose scans end on invalid pixels need more than 2x2)
        f(method, 3, 2, (False, False, False, False)); f(method, 2, 3, (False, False, False, False))
        if not ctx.quick:
            f(method, 1, 4); f(method, 4, 1)
            for pre in itertools.product((True, False), repeat=4):
                f(method, 2, 3, pre); f(method, 3, 2, pre)
    return J


def main(ctx):
    ctx.level = 'other'
    cexs = []
    for r in ctx.run_jobs(jobs(ctx), timeout=1500 if ctx.quick else 7200):
        cexs += ctx.absorb(r)
    ctx.replay_all(cexs, MOD, 'replay')
    ctx.cov['explanation'] = ('real interpolated_disparity of both methods (interpolate_occlusion/mismatch_mc_cnn, interpolate_mismatch/occlusion_sgm, '
                              'find_valid_neighbors; numba kernels run from their Python source) on fully symbolic small maps: every validity mask '
                              '(as cross-checking can leave it) and every disparity (exact domain); the kernels fork on the mask classes, all paths are '
                              'explored; a reference scan written from the documentation runs in the same exploration and z3 decides per path: '
                              'unflagged pixels bit-identical, filled pixels swap 8->4 / 9->5 and take the documented value from valid pixels, '
                              'pixels with no valid pixel in sight stay flagged and untouched, all indices in bounds')


def replay(body):
    from vf.common import Ctx
    import json, shutil
    ctx = Ctx('C14', 'quick', 0)
    r = ctx.run_job({'mod': MOD, 'fn': 'replay', 'mode': 'plain', 'args': {'cex': body['cex']}}, 600)
    print(json.dumps({k: v for k, v in r.items() if k != 'job'}, indent=1))
    shutil.rmtree(ctx.scratch, ignore_errors=True)
    return 1 if r.get('violates') else 0
