"""C08 value-level harnesses (filled in later: real matching cost + wta on symbolic images)."""


def value_level(ctx):
    return []


def replay_cex(ctx, cexs):
    return


def replay(body):
    return 0
