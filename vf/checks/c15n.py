"""C15 numerics: the real FixedZoomPyramid.disparity_range on symbolic coarse maps (vf.harness.c15)."""
MOD = 'vf.harness.c15'


def numerics(ctx):
    cap = 60 if ctx.quick else 300
    J = []
    cfgs = [dict(R=4, C=4, sym_mask=5, marge=1), dict(R=3, C=5, sym_mask=5, marge=0, seed=1), dict(R=4, C=4, sym_mask=4, marge=2, user='grid', seed=2),
            dict(R=5, C=5, ws=5, sym_mask=4, marge=1, seed=3), dict(R=4, C=3, sf=3, sym_mask=4, marge=1, dmin=-2, dmax=2, seed=4),
            dict(R=3, C=4, sym_mask=3, marge=4, dmin=-2, dmax=2, seed=5)]      # a marge wider than the user interval of the next level
    if not ctx.quick:
        cfgs += [dict(R=5, C=5, sym_mask=8, marge=1, seed=5), dict(R=4, C=6, sym_mask=8, marge=3, seed=6, user='grid'),
                 dict(R=6, C=6, ws=5, sym_mask=6, marge=1, seed=7), dict(R=4, C=4, sf=4, sym_mask=5, marge=1, seed=8), dict(R=3, C=3, ws=1, sym_mask=6, marge=0, seed=9)]
    for kw in cfgs:
        J.append({'mod': MOD, 'fn': 'disparity_range', 'mode': 'sym', 'args': dict(kw, cap=cap)})
    # "the input datasets are not modified": image preparation of the pyramid (shared with C18)
    for b in (0, 2):
        J.append({'mod': 'vf.harness.c18', 'fn': 'inputs_untouched', 'mode': 'sym', 'args': {'bands': b, 'cap': cap}})
    cexs = []
    for r in ctx.run_jobs(J, timeout=1500 if ctx.quick else 7200):
        for cx in ctx.absorb(r):
            cx['harness'] = 'c15.disparity_range' if r['job']['mod'] == MOD else 'c18.inputs_untouched'
            cexs.append(cx)
    ctx.cov['explanation_numerics'] = ('numerics: the real FixedZoomPyramid.disparity_range with mask_invalid_disparities, sliding_window, the 100-pixel chunk '
                                       'loop and scipy zoom(order=0, modelled as the index permutation the real zoom produces) on a symbolic coarse '
                                       'disparity map and partly symbolic validity mask: every fine pixel searches [min - marge, max + marge] of the valid '
                                       'disparities in the window of a coarse pixel at most one pixel from its geometric parent, or the whole user '
                                       'interval when that pixel is invalid / on the border; shapes; the coarse products are not modified')
    ctx.assumptions += ['C15 numerics: coarse maps up to 6x6, window 1/3/5, scale factor 2-4, marge 0-3; coarse disparities multiples of 1/4 inside the user '
                        'interval; validity masks symbolic on 4-8 pixels (all 12 bits), concrete pseudo-random elsewhere; pyramid_gaussian (skimage) not modelled']
    return cexs


def replay_cex(ctx, cexs):
    ctx.replay_all([c for c in cexs if c['harness'].startswith('c15')], MOD, 'replay')
    ctx.replay_all([c for c in cexs if c['harness'].startswith('c18')], 'vf.harness.c18', 'replay')


def replay(body):
    from vf.common import Ctx
    import json, shutil
    ctx = Ctx('C15', 'quick', 0)
    mod = 'vf.harness.c18' if body['cex'].get('harness', '').startswith('c18') else MOD
    r = ctx.run_job({'mod': mod, 'fn': 'replay', 'mode': 'plain', 'args': {'cex': body['cex']}}, 900)
    print(json.dumps({k: v for k, v in r.items() if k != 'job'}, indent=1))
    shutil.rmtree(ctx.scratch, ignore_errors=True)
    return 1 if r.get('violates') else 0
