"""C15 numerics (FixedZoomPyramid.disparity_range on symbolic maps) -- filled in later."""


def numerics(ctx):
    return []


def replay_cex(ctx, cexs):
    return


def replay(body):
    return 0
