"""shared driver for the E3-based checks (C01, C08 structural, C15 schedule)"""
import random
MOD = 'vf.harness.e3jobs'

OWN = {
    'C09': ['coarsest-level-searches-user-interval-over-sf^(n-1)', 'user-interval-at-each-scale', 'right-user-interval-at-each-scale',
            'accepted-pipeline-runs-without-error'],
    'C01': ['accepted-iff-documented-path', 'rejection-is-a-sequencing-error', 'after-check-initial-state-no-leftover-transitions',
            'checked-pipeline-keeps-order', 'second-check-same-machine-identical', 'accepted-pipeline-runs-without-error',
            'each-step-once-per-scale-in-order-left-then-right', 'after-run-initial-state-no-leftover-transitions',
            'second-run-same-machine-identical', 'history-other-pipeline-checked-before-same-steps-same-order',
            'history-other-pipeline-checked-before-run-as-configured', 'history-other-pipeline-run-before-run-as-configured',
            'history-other-pipeline-run-before-same-products-as-fresh-machine'],
    'C08': ['right-products-equal-left-products-of-mirrored-run', 'no-validation-right-dataset-empty',
            'history-other-pipeline-run-before-right-dataset-empty-without-validation',
            'adding-cross-checking-leaves-left-disparity-unchanged', 'accepted-pipeline-runs-without-error'],
    'C19': ['saved-configuration-replays-to-the-same-products', 'accepted-pipeline-runs-without-error'],
    'C15': ['matching-runs-once-per-scale-coarse-to-fine', 'last-scale-is-full-resolution', 'user-interval-at-each-scale',
            'right-user-interval-at-each-scale', 'coarsest-level-searches-user-interval-over-sf^(n-1)',
            'finer-level-interval-is-sf-times-disparity-range-of-coarser-map', 'each-step-once-per-scale-in-order-left-then-right',
            'accepted-pipeline-runs-without-error', 'history-other-pipeline-run-before-run-as-configured',
            'history-other-pipeline-run-before-same-products-as-fresh-machine', 'second-run-same-machine-identical'],
}


def run_e3(ctx, prop, maxlen, word_filter=None, ms_variants=((2, 2),), suffix_styles=(0,), fillings=(False,), chunks=14,
           histories=True, mirror=True):
    """returns list of counterexamples owned by `prop` (already filtered)"""
    wr = ctx.run_job({'mod': MOD, 'fn': 'words', 'mode': 'plain', 'nojit': True, 'args': {'maxlen': maxlen}}, 600)
    if wr.get('error'):
        ctx.harness_errors.append('word generation: %s' % wr['error']); return []
    words = wr['accepted'] + wr['rejected']
    if word_filter:
        words = [w for w in words if word_filter(w)]
    random.Random(ctx.seed).shuffle(words)
    n = max(1, min(chunks, len(words)))
    jobs = [{'mod': MOD, 'fn': 'run', 'mode': 'plain', 'nojit': True,
             'args': {'words': words[i::n], 'histories': histories, 'mirror': mirror, 'ms_variants': [list(x) for x in ms_variants],
                      'suffix_styles': list(suffix_styles), 'fillings': list(fillings)}} for i in range(n)]
    cexs = []
    c = ctx.cov
    c.setdefault('by_obligation', {})
    c.setdefault('words_accepted', 0); c.setdefault('words_rejected', 0); c.setdefault('traces_validated_against_impl', 0)
    for r in ctx.run_jobs(jobs, 1800):
        if r.get('error'):
            ctx.harness_errors.append('e3 run: %s %s' % (r['error'], r.get('where', [])[-2:])); continue
        c['evaluations'] += r['evaluations']; c['paths'] += r['evaluations']
        c['queries'] += r['queries']
        c['words_accepted'] += r['accepted']; c['words_rejected'] += r['rejected']
        c['traces_validated_against_impl'] += r['traces_validated']
        for name, (tot, ok) in r['by_name'].items():
            if name in OWN[prop]:
                c['obligations'] += tot; c['discharged'] += ok
                b = c['by_obligation'].setdefault(name, [0, 0]); b[0] += tot; b[1] += ok
        for i in r['inconclusive']:
            c['inconclusive'] += 1; c['inconclusive_list'].append(i)
        for s in r['samples']:
            if len(c['samples']) < 6:
                c['samples'].append(s)
        for cx in r['cex']:
            if cx['name'] in OWN[prop]:
                cx = dict(cx, harness='e3.run_words')
                if (cx.get('variant') or {}).get('suffix_style') == 5 and cx['name'] == 'accepted-iff-documented-path' and 'rejects' in str(cx.get('detail')):
                    cx['known'] = 'KF-C01-suffixed-first-occurrence'
                cexs.append(cx)
    c['distinct_nontrivial'] = c['words_accepted'] + c['words_rejected']
    c['bounds']['e3'] = {'word_length_executed': maxlen, 'each_step_kind_at_most': 2, 'multiscale (num_scales, scale_factor)': [list(x) for x in ms_variants],
                         'suffix_styles': list(suffix_styles), 'with_filling': list(fillings),
                         'histories': 'check.check.run.run on one machine object; mirrored run on a second machine'}
    for s in ['step classes of the ten registries = stubs returning z3 terms built by uninterpreted functions of their arguments (EUF)',
              'stub contract validation: result keeps first map disparities; flags/confidence depend on the first map and on the second map disparities only',
              'stub contract semantic_segmentation: image radiometry/masks unchanged, a segmentation layer is attached that only optimization reads',
              'prepare_pyramid = stub returning tagged level images of shrinking size', 'validity_mask = uninterpreted function']:
        if s not in c['stubs']:
            c['stubs'].append(s)
    return cexs


def replay(body, prop):
    from vf.common import Ctx
    import json, shutil
    ctx = Ctx(prop, 'quick', 0)
    r = ctx.run_job({'mod': MOD, 'fn': 'replay', 'mode': 'plain', 'nojit': True, 'args': {'cex': body['cex']}}, 600)
    print(json.dumps({k: v for k, v in r.items() if k != 'job'}, indent=1))
    shutil.rmtree(ctx.scratch, ignore_errors=True)
    return 1 if r.get('violates') else 0
