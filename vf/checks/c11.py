"""C11: cross-based cost aggregation = mean of the computable costs over the combined support region."""
import itertools
MOD = 'vf.harness.c11'
KF = 'KF-C11-distance-1-arm-over-masked-neighbour'


def main(ctx):
    ctx.level = 'other'
    cap = 60 if ctx.quick else 300
    J = []
    for (H, W) in ((1, 3), (3, 1), (2, 2)):
        for la in ((2, 3) if ctx.quick else (2, 3, 4)):
            J.append({'mod': MOD, 'fn': 'arms', 'mode': 'sym', 'args': {'H': H, 'W': W, 'len_arms': la, 'cap': cap}})
    J.append({'mod': MOD, 'fn': 'arms', 'mode': 'sym', 'args': {'H': 1, 'W': 3, 'len_arms': 1, 'cap': cap, 'block': ctx.known_ids}})
    if not ctx.quick:
        J.append({'mod': MOD, 'fn': 'arms', 'mode': 'sym', 'args': {'H': 1, 'W': 4, 'len_arms': 3, 'cap': cap}})
        J.append({'mod': MOD, 'fn': 'arms', 'mode': 'sym', 'args': {'H': 2, 'W': 3, 'len_arms': 2, 'cap': cap}})
    cfgs = [dict(disps=[0, 1]), dict(disps=[-1, 0], second_call=True), dict(disps=[-0.75, -0.25, 0.5], subpix=4),
            dict(disps=[0], len_arms=5, W=4, sym_pixels=[])]       # cbca_distance larger than the number of rows (3) and columns
    if not ctx.quick:
        cfgs += [dict(disps=[-1, 0, 1], len_arms=3), dict(disps=[-1.5, -0.5, 0.5], subpix=2, second_call=True), dict(disps=[0, 1], sym_pixels=[[1, 1], [1, 2]])]
    for cfg in cfgs:
        if cfg.get('subpix', 1) > 1:
            cfg = dict(cfg, sym_calls=[0])       # sub-pixel planes: arms of the chosen pixel symbolic in the left image only
        for pre in itertools.product((True, False), repeat=3 if cfg.get('subpix', 1) == 1 else 2):
            J.append({'mod': MOD, 'fn': 'aggregate', 'mode': 'sym', 'args': dict(cfg, cap=cap, prefix=list(pre), seed=ctx.seed)})
    cexs = []
    for r in ctx.run_jobs(J, timeout=1500 if ctx.quick else 7200):
        cexs += ctx.absorb(r)
    ctx.replay_all(cexs, MOD, 'replay')
    ctx.cov['explanation'] = ('(1) the real cross_support kernel on symbolic images (finite or masked=+inf samples): every arm == the statement (stop at '
                              'cbca_distance, at an intensity jump, at a masked pixel, one-pixel minimum over a valid neighbour), all paths; (2) the real '
                              'cost_volume_aggregation (cbca_step_1..4, plane loop, shifted-image selection, NaN restore, normalisation) on a symbolic cost '
                              'volume with cross_support replaced by a stub returning arbitrary arms inside the invariant of (1) (assume-guarantee; the '
                              'solver enumerates the arms of the chosen pixels, the others are pseudo-random): aggregated cost * |region| == sum of the '
                              'computable costs over the combined region, NaN stays NaN, nothing else becomes NaN; sub-pixel planes, second call on the '
                              'same object')
    ctx.assumptions += ['C11: the 3x3 median prefilter and mask handling inside computes_cross_supports run on concrete images in harness (2) (covered by C10 for the median)']


def replay(body):
    from vf.common import Ctx
    import json, shutil
    ctx = Ctx('C11', 'quick', 0)
    r = ctx.run_job({'mod': MOD, 'fn': 'replay', 'mode': 'plain', 'args': {'cex': body['cex']}}, 900)
    print(json.dumps({k: v for k, v in r.items() if k != 'job'}, indent=1))
    shutil.rmtree(ctx.scratch, ignore_errors=True)
    return 1 if r.get('violates') else 0
