"""C06: the real loop_refinement + Vfit/Quadratic.refinement_method executed symbolically on one pixel.

Domain 'real': costs are exact rationals (tag finite/NaN), arithmetic is rational ("reals-for-floats" assumption, stated):
decides the algebraic content (shift <= half a sample, fitted optimum, never worse, flags, totality incl. division by zero).
Domain 'fp': bit-precise float32/float64 with numba promotion rules: shift bound on the stored float32 value, flags.
"""
import numpy as np, z3

INVALID = 0b01111000011
KNOWN = {}


def _vfit_oracle(c0, c1, c2, inv):
    """documented V-fit (refinement.rst): slope = larger side, dx = (c0-c2)/(2a), y = a(dx-1)+c2 ; flat -> (0, c1)"""
    a = z3.If(inv * c0 > inv * c2, c0 - c1, c2 - c1)
    from fractions import Fraction as _F
    flat = z3.If(a < 0, -a, a) < z3.RealVal(str(_F(1.0e-15)))      # the exact value of the double constant in the code
    dx = (c0 - c2) / (2 * a)
    return z3.If(flat, 0, dx), z3.If(flat, c1, a * (dx - 1) + c2), flat


def _quad_oracle(c0, c1, c2):
    alpha = (c0 - 2 * c1 + c2) / 2; beta = (c2 - c0) / 2
    x = -beta / (2 * alpha)
    x = z3.If(x > 1, 1, z3.If(x < -1, -1, x))
    return x, alpha * x * x + beta * x + c1, alpha == 0


def refine_real(method, measure, subpix, D, k, frac=0, cap=60, block=(), premask='sym'):
    """one pixel, D samples, winner sample index k (concrete), incoming disparity = sample + frac/(4*subpix) (frac != 0 models a
    disparity left by a filter or an earlier refinement)"""
    import xarray as xr
    from fractions import Fraction
    from vf import symnp as S, instr
    from vf.explore import EX, explore
    from vf.hutil import Collector
    import pandora.refinement.refinement as RF, pandora.refinement.vfit as VF, pandora.refinement.quadratic as QD
    col = Collector(cap_s=cap, block=list(block))
    info = {}
    dmin = -1
    S.REALS['div'] = True
    inv = 1 if measure == 'min' else -1

    def h():
        cv = S.fresh_array('c', (1, 1, D), 'x4', tagged=True, tags=(0, 1), real=True)
        mask = S.fresh_array('m', (1, 1), 'u2')
        col.shapes = {'c': ((1, 1, D), 'x4'), 'm': ((1, 1), 'u2')}
        m0 = mask._a[0, 0].t
        EX.assume(z3.ULT(m0, z3.BitVecVal(4096, 16)))
        d0 = np.float32(dmin + (k + Fraction(frac, 4)) / Fraction(subpix))
        dmax = dmin + (D - 1) / subpix
        disp = S.SymArray(np.array([[d0]], dtype=np.float32), 'x4')
        ct = [cv._a[0, 0, i].t for i in range(D)]
        for t in ct:
            EX.assume(z3.And(t.val >= -4096, t.val <= 4096))
        # the sample the pixel sits on has a computable cost (postcondition of winner-takes-all for valid pixels)
        ks = int((float(d0) - dmin) * subpix)
        EX.assume(z3.Or((m0 & INVALID) != 0, ct[ks].tag == 0))
        r = RF.AbstractRefinement(**{"refinement_method": method})
        ex = {'method': method, 'measure': measure, 'subpix': subpix, 'D': D, 'k': k, 'frac': frac, 'domain': 'real'}
        cv0 = cv.copy()
        try:
            itp, d1, m1 = r.loop_refinement(cv, disp, mask, dmin, dmax, subpix, measure, r.refinement_method)
        except S.Unsupported:
            raise
        except Exception as e:      # noqa
            col.path_exception(e, label='p%d' % len(EX.trace), extra=ex)
            return
        new = S.xlift(d1._a[0, 0]); coef = S.xlift(itp._a[0, 0]); mnew = S.lift(m1._a[0, 0], 'u2')
        old = z3.RealVal(str(Fraction(float(d0))))
        valid = (m0 & INVALID) == 0
        props = []
        if 0 < ks < D - 1 and float(d0) != dmin and float(d0) != dmax:
            c0, c1, c2 = ct[ks - 1], ct[ks], ct[ks + 1]
            nan_nb = z3.Or(c0.tag != 0, c2.tag != 0)
            not_ext = z3.Or(inv * c1.val > inv * c0.val, inv * c1.val > inv * c2.val)
            stop = z3.Or(nan_nb, not_ext)
            if method == 'vfit':
                dx, y, degenerate = _vfit_oracle(c0.val, c1.val, c2.val, inv)
            else:
                dx, y, degenerate = _quad_oracle(c0.val, c1.val, c2.val)
            moved = z3.And(valid, z3.Not(stop))
            diff = new.val - old
            props.append(("shift-at-most-half-a-sample", z3.Implies(valid, z3.And(new.tag == 0, diff <= z3.RealVal(1) / (2 * subpix), diff >= -z3.RealVal(1) / (2 * subpix)))))
            # the fitted optimum, kept inside the interval (only a disparity that a previous filter moved off the sampling grid can be
            # closer than half a sample to an end without sitting on the end sample)
            tgt = old + dx / subpix
            hi_ = z3.RealVal(str(Fraction(dmax)))
            tgt = z3.If(tgt < dmin, z3.RealVal(dmin), z3.If(tgt > hi_, hi_, tgt))
            props.append(("refined-equals-fitted-optimum", z3.Implies(z3.And(moved, z3.Not(degenerate)), z3.And(new.val == tgt, coef.tag == 0, coef.val == y))))
            props.append(("coefficient-never-worse-than-sample", z3.Implies(moved, z3.And(coef.tag == 0, inv * coef.val <= inv * c1.val))))
            props.append(("stays-inside-interval", z3.Implies(valid, z3.And(new.val >= dmin, new.val <= z3.RealVal(str(Fraction(dmax)))))))
            props.append(("left-in-place-with-bit3-iff-cause", z3.Implies(valid, z3.And(
                z3.Implies(stop, z3.And(new.val == old, (mnew & 8) == 8, coef.tag == 0, coef.val == c1.val)),
                z3.Implies(z3.Not(stop), (mnew & 8) == (m0 & 8))))))
        else:
            # sample on an end of the interval: left in place, bit 3 raised
            props.append(("interval-end-left-in-place-with-bit3", z3.Implies(valid, z3.And(new.tag == 0, new.val == old, (mnew & 8) == 8))))
        props.append(("no-other-bit-changes", (mnew & ~z3.BitVecVal(8, 16)) == (m0 & ~z3.BitVecVal(8, 16))))
        props.append(("invalid-pixel-untouched", z3.Implies(z3.Not(valid), z3.And(new.val == old, mnew == m0, coef.tag == 1))))
        props.append(("cost-volume-untouched", z3.And(*[S.term_eq(cv._a[0, 0, i], cv0._a[0, 0, i], 'x4') for i in range(D)])))
        wit = [("valid-and-moved", z3.And(valid, new.val != old))] if (0 < ks < D - 1) else [("valid", valid)]
        col.check_path(props, label='p' + ''.join('T' if b else 'F' for b in EX.trace), witnesses=wit, extra=ex, group=False)
        info['fn'] = instr.fn_hash(RF.AbstractRefinement.loop_refinement, VF.Vfit.refinement_method, QD.Quadratic.refinement_method)
    res, stats = explore(h, max_paths=200)
    return col.result(stats, functions=info.get('fn', {}),
                      bounds={'method': method, 'measure': measure, 'subpix': subpix, 'samples': D, 'winner_index': k, 'incoming_offset_quarters': frac,
                              'costs': 'any real |c| <= 4096, or NaN', 'mask': 'any uint16 < 4096', 'domain': 'reals-for-floats'},
                      assumptions=['C06(real): costs and arithmetic are exact rationals (floating-point rounding of the fit is outside this harness)',
                                   'C06: the sample a valid pixel sits on has a computable (non-NaN) cost'])


def replay(cex):
    import pandora.refinement.refinement as RF
    from fractions import Fraction
    x = cex['extra']; D = x['D']; subpix = x['subpix']; dmin = -1
    inp = cex['inputs']
    cv = np.array(inp['c'], dtype=np.float32).reshape(1, 1, D)
    m0 = np.array(inp['m'], dtype=np.uint16).reshape(1, 1)
    if x.get('domain') == 'fp' and 'd' in inp:
        d0 = np.float32(np.array(inp['d']).reshape(-1)[0])
    else:
        d0 = np.float32(dmin + (x['k'] + Fraction(x.get('frac', 0), 4)) / Fraction(subpix))
    dmax = dmin + (D - 1) / subpix
    disp = np.array([[d0]], dtype=np.float32); mask = m0.copy()
    r = RF.AbstractRefinement(**{"refinement_method": x['method']})
    inv = 1 if x['measure'] == 'min' else -1
    try:
        itp, d1, m1 = r.loop_refinement(cv.copy(), disp, mask, dmin, dmax, subpix, x['measure'], r.refinement_method)
    except BaseException as e:      # noqa (numba raises SystemError from parallel loops)
        return {'violates': True, 'detail': 'refinement raised %s: %s on costs %s disp %s mask %s' % (type(e).__name__, str(e)[:80], cv.ravel().tolist(), float(d0), int(m0[0, 0]))}
    bad = []
    new = float(d1[0, 0]); old = float(d0); mn = int(m1[0, 0]); mo = int(m0[0, 0])
    valid = (mo & INVALID) == 0
    ks = int((old - dmin) * subpix)
    if (mn & ~8) != (mo & ~8):
        bad.append('bits other than 3 changed: %d -> %d' % (mo, mn))
    if not valid:
        if new != old or mn != mo:
            bad.append('invalid pixel modified')
    else:
        # the stored value is a float32: the exact sum old + shift (|shift| <= half a sample) is rounded once, so the stored shift may
        # exceed half a sample by at most half an ulp of the result
        if abs(new - old) > 0.5 / subpix + float(np.spacing(np.float32(abs(new)))) / 2:
            bad.append('moved by %r > half a sample' % (new - old))
        if not (dmin <= new <= dmax):
            bad.append('left the interval: %r' % new)
        c = cv[0, 0]
        at_end = not (0 < ks < D - 1) or old == dmin or old == dmax
        if at_end:
            stop = True
        else:
            stop = bool(np.isnan(c[ks - 1]) or np.isnan(c[ks + 1]) or inv * c[ks] > inv * c[ks - 1] or inv * c[ks] > inv * c[ks + 1])
        if stop:
            if new != old or not (mn & 8):
                bad.append('should be left in place with bit 3 (disp %r -> %r, mask %d -> %d)' % (old, new, mo, mn))
        else:
            if (mn & 8) != (mo & 8):
                bad.append('bit 3 changed although the sample is a fitted extremum (mask %d -> %d)' % (mo, mn))
            if not (inv * float(itp[0, 0]) <= inv * float(c[ks]) + 1e-9 * max(1.0, abs(float(c[ks])))):
                bad.append('fitted coefficient %r worse than sample cost %r' % (float(itp[0, 0]), float(c[ks])))
            # fitted optimum (float64 reference of the documented formulas)
            c0, c1, c2 = [float(v) for v in (c[ks - 1], c[ks], c[ks + 1])]
            if x['method'] == 'vfit':
                a = (c0 - c1) if inv * c0 > inv * c2 else (c2 - c1)
                dx = 0.0 if abs(a) < 1e-15 else (c0 - c2) / (2 * a)
            else:
                alpha = (c0 - 2 * c1 + c2) / 2; beta = (c2 - c0) / 2
                dx = None if alpha == 0 else min(1.0, max(-1.0, -beta / (2 * alpha)))
            if dx is not None:
                tgt = min(max(old + dx / subpix, dmin), dmax)       # fitted optimum, kept inside the interval
                if abs(new - tgt) > 1e-5:
                    bad.append('refined disparity %r differs from the fitted optimum %r' % (new, tgt))
    return {'violates': bool(bad), 'detail': '; '.join(bad[:3]) + ' [costs=%s disp=%s mask=%d %s %s subpix=%d]' % (cv.ravel().tolist(), old, mo, x['method'], x['measure'], subpix)}


def refine_fp(method, measure, subpix, D, k, cap=120, block=(), float_disp=False):
    """bit-precise float32 costs (numba promotion rules): stored shift bound, flags, in-bounds, no exception.
    float_disp: the incoming disparity is an arbitrary float32 inside the interval (after a filter / earlier refinement)"""
    from vf import symnp as S, instr
    from vf.explore import EX, explore
    from vf.hutil import Collector
    import pandora.refinement.refinement as RF, pandora.refinement.vfit as VF, pandora.refinement.quadratic as QD
    col = Collector(cap_s=cap, block=list(block))
    info = {}
    dmin = -1
    F32, F64, RNE = z3.Float32(), z3.Float64(), z3.RNE()
    inv = 1 if measure == 'min' else -1

    def h():
        cv = S.fresh_array('c', (1, 1, D), 'f4')
        mask = S.fresh_array('m', (1, 1), 'u2')
        col.shapes = {'c': ((1, 1, D), 'f4'), 'm': ((1, 1), 'u2')}
        m0 = mask._a[0, 0].t
        EX.assume(z3.ULT(m0, z3.BitVecVal(4096, 16)))
        dmax = dmin + (D - 1) / subpix
        for e in cv._a.flat:
            # magnitude bounds: finite costs with |c| <= 2^20 and (0 or >= 2^-20)  -- excludes overflow / subnormal regimes
            EX.assume(z3.Or(z3.fpIsNaN(e.t), z3.And(z3.fpLEQ(z3.fpAbs(e.t), z3.FPVal(2.0 ** 20, F32)),
                                                    z3.Or(z3.fpIsZero(e.t), z3.fpGEQ(z3.fpAbs(e.t), z3.FPVal(2.0 ** -20, F32))))))
        if float_disp:
            dsym = S.fresh_scalar('d', 'f4'); col.shapes['d'] = ((), 'f4')
            EX.assume(z3.And(z3.fpGEQ(dsym.t, z3.FPVal(float(dmin), F32)), z3.fpLEQ(dsym.t, z3.FPVal(float(dmax), F32))))
            d0 = dsym
            disp = S.SymArray(np.array([[dsym]], dtype=object), 'f4')
            old = dsym.t
        else:
            d0 = np.float32(dmin + k / subpix)
            disp = S.SymArray(np.array([[d0]], dtype=np.float32), 'f4')
            old = z3.FPVal(float(d0), F32)
            EX.assume(z3.Or((m0 & INVALID) != 0, z3.Not(z3.fpIsNaN(cv._a[0, 0, k].t))))
        r = RF.AbstractRefinement(**{"refinement_method": method})
        ex = {'method': method, 'measure': measure, 'subpix': subpix, 'D': D, 'k': k, 'domain': 'fp', 'float_disp': float_disp}
        try:
            itp, d1, m1 = r.loop_refinement(cv, disp, mask, dmin, dmax, subpix, measure, r.refinement_method)
        except S.Unsupported:
            raise
        except Exception as e:      # noqa
            col.path_exception(e, label='p%d' % len(EX.trace), extra=ex)
            return
        new = S.lift(d1._a[0, 0], 'f4'); mnew = S.lift(m1._a[0, 0], 'u2')
        valid = (m0 & INVALID) == 0
        # the stored float32 is the exact sum old + shift rounded once: half a sample plus half an ulp of the result (results lie in
        # [-1, 4): half an ulp is at most 2^-23)
        half = z3.FPVal(0.5 / subpix + 2.0 ** -23, F64)
        diff = z3.fpAbs(z3.fpSub(RNE, z3.fpToFP(RNE, new, F64), z3.fpToFP(RNE, old, F64)))
        props = [("stored-shift-at-most-half-a-sample", z3.fpLEQ(diff, half)),
                 ("no-other-bit-changes", (mnew & ~z3.BitVecVal(8, 16)) == (m0 & ~z3.BitVecVal(8, 16))),
                 ("invalid-pixel-untouched", z3.Implies(z3.Not(valid), z3.And(new == old, mnew == m0))),
                 ("stays-inside-interval", z3.And(z3.fpGEQ(new, z3.FPVal(float(dmin), F32)), z3.fpLEQ(new, z3.FPVal(float(dmax), F32))))]
        col.check_path(props, label='p' + ''.join('T' if b else 'F' for b in EX.trace), extra=ex, group=False,
                       witnesses=[("valid-and-moved", z3.And(valid, z3.Not(z3.fpEQ(new, old))))] if (float_disp or 0 < k < D - 1) else [])
        info['fn'] = instr.fn_hash(RF.AbstractRefinement.loop_refinement, VF.Vfit.refinement_method, QD.Quadratic.refinement_method)
    res, stats = explore(h, max_paths=400)
    return col.result(stats, functions=info.get('fn', {}),
                      bounds={'method': method, 'measure': measure, 'subpix': subpix, 'samples': D, 'winner_index': None if float_disp else k,
                              'incoming_disparity': 'any float32 in the interval' if float_disp else 'sample',
                              'costs': 'float32 NaN or 2^-20 <= |c| <= 2^20 or 0', 'mask': 'any uint16 < 4096', 'domain': 'bit-precise FP'},
                      assumptions=['C06(fp): cost magnitudes within [2^-20, 2^20] or zero (overflow/subnormal regimes excluded)'])
