"""C02 / C04(coherence) / C09 harnesses on the shared symbolic matching-cost run (vf.harness.mc)."""
import numpy as np, z3

INV4 = 0b11000011          # bits 0, 1, 6, 7


def _oracle_terms(S, method, ws, H, W, li, ri, lmk, rmk, ds, grids=None, lcodes=(0, 1), rcodes=(0, 1)):
    """statement-derived reference: computable(r,c,k) and value(r,c,k) as z3 terms"""
    h = ws // 2
    lv = lambda r, c: li._a[r, c].t.val
    rv = lambda r, c: ri._a[r, c].t.val
    nodL = (lambda r, c: lmk._a[r, c].t == lcodes[1]) if lmk is not None else (lambda r, c: z3.BoolVal(False))
    nodR = (lambda r, c: rmk._a[r, c].t == rcodes[1]) if rmk is not None else (lambda r, c: z3.BoolVal(False))
    invL = (lambda r, c: z3.And(lmk._a[r, c].t != lcodes[0], lmk._a[r, c].t != lcodes[1])) if lmk is not None else (lambda r, c: z3.BoolVal(False))
    invR = (lambda r, c: z3.And(rmk._a[r, c].t != rcodes[0], rmk._a[r, c].t != rcodes[1])) if rmk is not None else (lambda r, c: z3.BoolVal(False))
    comp = {}; val = {}; geom = {}

    def census(v, r, c):
        return [v(r + dr, c + dc) > v(r, c) for dr in range(-h, h + 1) for dc in range(-h, h + 1)]
    for r in range(H):
        for c in range(W):
            for k, d in enumerate(ds):
                c2 = c + d
                g = not (r - h < 0 or r + h >= H or c - h < 0 or c + h >= W or c2 - h < 0 or c2 + h >= W)
                geom[(r, c, k)] = g
                if not g:
                    comp[(r, c, k)] = z3.BoolVal(False); continue
                win = [(dr, dc) for dr in range(-h, h + 1) for dc in range(-h, h + 1)]
                conds = [z3.Not(nodL(r + dr, c + dc)) for dr, dc in win] + [z3.Not(nodR(r + dr, c2 + dc)) for dr, dc in win]
                conds += [z3.Not(invL(r, c)), z3.Not(invR(r, c2))]
                if grids is not None:
                    gmin, gmax = grids
                    gv = lambda e_: (e_.t.val if e_.k == 'x4' else e_.t) if isinstance(e_, S.Sym) else z3.RealVal(str(float(e_)))
                    conds += [gv(gmin._a[r, c]) <= d, gv(gmax._a[r, c]) >= d]
                comp[(r, c, k)] = z3.And(*conds)
                if method == 'sad':
                    diffs = [lv(r + dr, c + dc) - rv(r + dr, c2 + dc) for dr, dc in win]
                    val[(r, c, k)] = z3.Sum([z3.If(x < 0, -x, x) for x in diffs])
                elif method == 'ssd':
                    val[(r, c, k)] = z3.Sum([(lv(r + dr, c + dc) - rv(r + dr, c2 + dc)) * (lv(r + dr, c + dc) - rv(r + dr, c2 + dc)) for dr, dc in win])
                elif method == 'census':
                    a = census(lv, r, c); b = census(rv, r, c2)
                    val[(r, c, k)] = z3.Sum([z3.If(x != y, z3.RealVal(1), z3.RealVal(0)) for x, y in zip(a, b)])
    return comp, val, geom


def cost_volume(method='sad', ws=3, H=3, W=6, dmin=-1, dmax=1, masks=True, grids=False, col0=0, bands=None, band=None,
                wta=True, cap=60, block=(), known_config=False, lcodes=(0, 1), rcodes=(0, 1), rbands=None):
    """C02 (values + NaN pattern + attributes), C04 family 1 (flag coherence, with wta), C09 (grids: inside == scalar run, NaN outside)"""
    import xarray as xr
    from vf import symnp as S, instr
    from vf.explore import EX, explore
    from vf.hutil import Collector
    from vf.harness import mc
    import pandora.matching_cost.matching_cost as MC, pandora.criteria as CR, pandora.matching_cost.sad_ssd as SS_, pandora.matching_cost.census as CE
    import pandora.img_tools as IT
    mc.install_stubs(S)
    col = Collector(cap_s=cap, block=list(block))
    info = {}
    S.MODE['exact'] = True
    ds = list(range(dmin, dmax + 1))

    def h():
        shapes = {}
        L, li, lmk = mc.make_image(xr, S, EX, 'l', H, W, col0=col0, mask='sym' if masks else None, bands=bands, shapes=shapes, vmax=63 if method == 'ssd' else 255, codes=tuple(lcodes))
        R, ri, rmk = mc.make_image(xr, S, EX, 'r', H, W, col0=col0, mask='sym' if masks else None, bands=rbands or bands, shapes=shapes, vmax=63 if method == 'ssd' else 255, codes=tuple(rcodes))
        gr = None
        if grids == 'frac':
            # non-integer grid values (half samples): the searched range is [int(min), int(max)] == [dmin, dmax] with the global bounds
            # dmin - 1/2 and dmax + 1/2 pinned on two pixels; the other pixels carry symbolic half-integer bounds
            gmin = S.fresh_array('gmin', (H, W), 'x4', scale=2); gmax = S.fresh_array('gmax', (H, W), 'x4', scale=2)
            shapes['gmin'] = ((H, W), 'x4'); shapes['gmax'] = ((H, W), 'x4')
            for a, b in zip(gmin._a.flat, gmax._a.flat):
                EX.assume(z3.And(a.t.val >= z3.RealVal(dmin) - z3.RealVal('1/2'), b.t.val <= z3.RealVal(dmax) + z3.RealVal('1/2'), a.t.val <= b.t.val))
            EX.assume(gmin._a[0, 0].t.val == z3.RealVal(dmin) - z3.RealVal('1/2')); gmin._a[0, 0] = np.float32(dmin - 0.5)
            EX.assume(gmax._a[0, 1].t.val == z3.RealVal(dmax) + z3.RealVal('1/2')); gmax._a[0, 1] = np.float32(dmax + 0.5)
            gr = (gmin, gmax)
            garr = S.SymArray(np.stack([gmin._a, gmax._a]), 'x4')
            mc.add_disparity(xr, S, L, H, W, dmin, dmax, grids=garr)
        elif grids:
            gmin = S.fresh_array('gmin', (H, W), 'xi'); gmax = S.fresh_array('gmax', (H, W), 'xi')
            shapes['gmin'] = ((H, W), 'xi'); shapes['gmax'] = ((H, W), 'xi')
            for a, b in zip(gmin._a.flat, gmax._a.flat):
                EX.assume(z3.And(a.t >= dmin, b.t <= dmax, a.t <= b.t))
            # the global interval is attained (so that the searched range is [dmin, dmax])
            EX.assume(z3.Or(*[a.t == dmin for a in gmin._a.flat])); EX.assume(z3.Or(*[b.t == dmax for b in gmax._a.flat]))
            gr = (gmin, gmax)
            garr = S.SymArray(np.stack([gmin._a, gmax._a]), 'xi')
            mc.add_disparity(xr, S, L, H, W, dmin, dmax, grids=garr)
        else:
            mc.add_disparity(xr, S, L, H, W, dmin, dmax)
        col.shapes = shapes
        ex = {'method': method, 'ws': ws, 'H': H, 'W': W, 'dmin': dmin, 'dmax': dmax, 'masks': masks, 'grids': grids, 'col0': col0, 'bands': bands, 'band': band,
              'lcodes': list(lcodes), 'rcodes': list(rcodes), 'rbands': rbands}
        li0 = li.copy(); ri0 = ri.copy()
        try:
            out = mc.run_chain(S, L, R, method, ws, band=band, upto='wta' if wta else 'masked')
        except S.Unsupported:
            raise
        except Exception as e:      # noqa
            if known_config:
                col.known = {'KF-C02-interval-beyond-image-width': lambda: z3.BoolVal(True)}
            col.path_exception(e, label='p%d' % len(EX.trace), extra=ex)
            return
        cv = out['cv']
        o = cv["cost_volume"].data
        lsel = li if not bands else S.SymArray(li._a[list(bands).index(band)], 'x4')
        rsel = ri if not bands else S.SymArray(ri._a[list(rbands or bands).index(band)], 'x4')
        comp, val, geom = _oracle_terms(S, method, ws, H, W, lsel, rsel, lmk, rmk, ds, gr, lcodes, rcodes)
        props = []
        props.append(("cost-volume-shape-and-disparities", z3.BoolVal(tuple(o.shape) == (H, W, len(ds)) and list(cv.coords["disp"].data) == ds
                                                                      and list(cv.coords["col"].data) == list(range(col0, col0 + W)))))
        for (r, c, k), cm in comp.items():
            e = S.xlift(o._a[r, c, k])
            if not geom[(r, c, k)]:
                props.append(("nan-where-a-window-leaves-an-image[%d,%d,%d]" % (r, c, ds[k]), e.tag == 1))
            else:
                props.append(("cost-is-the-measure-nan-iff-not-computable[%d,%d,%d]" % (r, c, ds[k]),
                              z3.If(cm, z3.And(e.tag == 0, e.val == val[(r, c, k)]), e.tag == 1)))
        props.append(("type-of-measure-is-min", z3.BoolVal(cv.attrs.get("type_measure") == "min")))
        if method == 'census':
            props.append(("maximal-cost", z3.BoolVal(cv.attrs.get("cmax") == ws * ws)))
        props.append(("inputs-untouched", z3.And(*[S.term_eq(a, b, 'x4') for a, b in zip(li._a.flat, li0._a.flat)], *[S.term_eq(a, b, 'x4') for a, b in zip(ri._a.flat, ri0._a.flat)])))
        # ---- C04 family 1: flags / NaN costs / invalid disparity tell one story
        if wta:
            vm = out['disp']["validity_mask"].data; dm = out['disp']["disparity_map"].data
            hh = ws // 2
            nodL = (lambda r, c: lmk._a[r, c].t == lcodes[1]) if lmk is not None else (lambda r, c: z3.BoolVal(False))
            invL = (lambda r, c: z3.And(lmk._a[r, c].t != lcodes[0], lmk._a[r, c].t != lcodes[1])) if lmk is not None else (lambda r, c: z3.BoolVal(False))
            invR = (lambda r, c: z3.And(rmk._a[r, c].t != rcodes[0], rmk._a[r, c].t != rcodes[1])) if rmk is not None else (lambda r, c: z3.BoolVal(False))
            for r in range(H):
                for c in range(W):
                    m = S.lift(vm._a[r, c], 'u2')
                    d_ = S.xlift(dm._a[r, c])
                    allnan = z3.And(*[S.xlift(o._a[r, c, k]).tag == 1 for k in range(len(ds))])
                    is_inv = z3.And(d_.tag == 0, d_.val == -9999)
                    if r < hh or r >= H - hh or c < hh or c >= W - hh:
                        props.append(("border-pixel-carries-bit0-only[%d,%d]" % (r, c), z3.And(m == 1, is_inv)))
                        continue
                    props.append(("invalid-flag-iff-no-computable-cost-iff-invalid-disparity[%d,%d]" % (r, c),
                                  z3.And(((m & INV4) != 0) == allnan, allnan == is_inv, z3.ULT(m, z3.BitVecVal(4096, 16)))))
                    win = [(dr, dc) for dr in range(-hh, hh + 1) for dc in range(-hh, hh + 1)]
                    inimg = [d for d in ds if hh <= c + d < W - hh]
                    b0 = z3.Or(*[nodL(r + dr, c + dc) for dr, dc in win])
                    b6 = invL(r, c)
                    b2 = z3.BoolVal(0 < len(inimg) < len(ds))
                    b7 = z3.And(*[invR(r, c + d) for d in inimg]) if inimg else z3.BoolVal(False)
                    props.append(("documented-cause-of-bits-0-6-2-7-1[%d,%d]" % (r, c), z3.And(
                        ((m & 1) != 0) == b0, ((m & 64) != 0) == b6, ((m & 4) != 0) == b2, ((m & 128) != 0) == b7,
                        ((m & 2) != 0) == allnan, (m & ~z3.BitVecVal(0b11000111, 16)) == 0)))
                    # a valid pixel's disparity is one of the sampled disparities with a computable, minimal cost (ties: lowest)
                    best = []
                    for k in range(len(ds)):
                        ek = S.xlift(o._a[r, c, k])
                        isb = z3.And(ek.tag == 0, *[z3.Or(S.xlift(o._a[r, c, j]).tag == 1, S.xlift(o._a[r, c, j]).val >= ek.val) for j in range(len(ds))],
                                     *[z3.Or(S.xlift(o._a[r, c, j]).tag == 1, S.xlift(o._a[r, c, j]).val > ek.val) for j in range(k)])
                        best.append(z3.Implies(isb, z3.And(d_.tag == 0, d_.val == ds[k])))
                    props.append(("winner-takes-all-on-real-costs[%d,%d]" % (r, c), z3.And(*best)))
        wit = [("a-computable-cost-exists", z3.Or(*[cm for (rck, cm) in comp.items() if geom[rck]]) if any(geom.values()) else z3.BoolVal(True))]
        if masks and any(geom.values()):
            wit.append(("a-cost-is-masked-by-nodata-or-mask", z3.Or(*[z3.Not(cm) for (rck, cm) in comp.items() if geom[rck]])))
        col.check_path(props, label='p%d' % len(EX.trace), extra=ex, witnesses=wit)
        info['fn'] = instr.fn_hash(MC.AbstractMatchingCost.allocate_cost_volume, MC.AbstractMatchingCost.grid_estimation, MC.AbstractMatchingCost.cv_masked,
                                   MC.AbstractMatchingCost.masks_dilatation, MC.AbstractMatchingCost.point_interval, CR.validity_mask,
                                   CR.allocate_left_mask, CR.allocate_right_mask, CR.mask_invalid_variable_disparity_range, CR.mask_border,
                                   SS_.SadSsd.compute_cost_volume, SS_.SadSsd.pixel_wise_aggregation, CE.Census.compute_cost_volume, IT.census_transform)
    res, stats = explore(h, max_paths=64)
    return col.result(stats, functions=info.get('fn', {}),
                      bounds={'measure': method, 'window': ws, 'image': [H, W], 'interval': [dmin, dmax], 'masks': 'symbolic 4-valued' if masks else 'none',
                              'per-pixel grids': grids, 'first column coordinate': col0, 'bands': bands, 'radiometry': 'integers in [0, 255] (exact domain)'},
                      stubs=['scipy.ndimage.binary_dilation = OR over the window, zero padded'],
                      assumptions=['C02: integer-valued radiometry (sums stay exact in float32)', 'C02: subpix 1; masks take values 0 (valid), 1 (nodata), 2..3 (invalid)'])


def subpix_volume(method='sad', ws=3, H=3, W=5, dmin=-1, dmax=1, subpix=2, cap=120, block=(), masks=False):
    """C02 at sub-pixel precision: cost at disparity k + i/subpix == measure against the right image linearly interpolated between
    columns (no masks; radiometry integers, so that every interpolated sample and every sum is exact in float32)"""
    import xarray as xr
    from fractions import Fraction
    from vf import symnp as S, instr
    from vf.explore import EX, explore
    from vf.hutil import Collector
    from vf.harness import mc
    import pandora.matching_cost.matching_cost as MC, pandora.matching_cost.sad_ssd as SS_, pandora.matching_cost.census as CE, pandora.img_tools as IT
    mc.install_stubs(S)
    col = Collector(cap_s=cap, block=list(block))
    info = {}
    S.MODE['exact'] = True
    ds = [Fraction(dmin) + Fraction(i, subpix) for i in range((dmax - dmin) * subpix + 1)]
    hh = ws // 2

    def h():
        shapes = {}
        vmax = 31 if method == 'ssd' else 255
        L, li, lmk = mc.make_image(xr, S, EX, 'l', H, W, shapes=shapes, vmax=vmax, mask='sym' if masks else None)
        R, ri, rmk = mc.make_image(xr, S, EX, 'r', H, W, shapes=shapes, vmax=vmax, mask='sym' if masks else None)
        mc.add_disparity(xr, S, L, H, W, dmin, dmax)
        col.shapes = shapes
        ex = {'subpix_volume': True, 'method': method, 'ws': ws, 'H': H, 'W': W, 'dmin': dmin, 'dmax': dmax, 'subpix': subpix, 'masks': masks}
        nodL = (lambda r, c: lmk._a[r, c].t == 1) if masks else (lambda r, c: z3.BoolVal(False))
        nodR = (lambda r, c: rmk._a[r, c].t == 1) if masks else (lambda r, c: z3.BoolVal(False))
        invL = (lambda r, c: z3.And(lmk._a[r, c].t != 0, lmk._a[r, c].t != 1)) if masks else (lambda r, c: z3.BoolVal(False))
        invR = (lambda r, c: z3.And(rmk._a[r, c].t != 0, rmk._a[r, c].t != 1)) if masks else (lambda r, c: z3.BoolVal(False))
        try:
            out = mc.run_chain(S, L, R, method, ws, subpix=subpix, upto='masked')
        except S.Unsupported:
            raise
        except Exception as e:      # noqa
            col.path_exception(e, label='p%d' % len(EX.trace), extra=ex)
            return
        cv = out['cv']; o = cv["cost_volume"].data
        props = [("cost-volume-shape-and-disparities", z3.BoolVal(tuple(o.shape) == (H, W, len(ds)) and [Fraction(float(d)) for d in cv.coords["disp"].data] == ds))]
        lv = lambda r, c: li._a[r, c].t.val

        def rv(r, x):        # right image at the (possibly fractional) column x: linear interpolation between the two neighbours
            fl = x.numerator // x.denominator; f = x - fl
            if f == 0:
                return ri._a[r, fl].t.val
            return (1 - z3.RealVal(str(f))) * ri._a[r, fl].t.val + z3.RealVal(str(f)) * ri._a[r, fl + 1].t.val
        ncomp = 0; masked_any = []
        if tuple(o.shape) == (H, W, len(ds)):
            for r in range(H):
                for c in range(W):
                    for k, d in enumerate(ds):
                        c2 = c + d
                        lo_ = c2 - hh; hi_ = c2 + hh
                        hi_need = hi_ if hi_.denominator == 1 else Fraction(hi_.numerator // hi_.denominator + 1)
                        g = not (r - hh < 0 or r + hh >= H or c - hh < 0 or c + hh >= W or lo_ < 0 or hi_need > W - 1)
                        e = S.xlift(o._a[r, c, k])
                        if not g:
                            props.append(("nan-where-a-window-leaves-an-image[%d,%d,%s]" % (r, c, d), e.tag == 1)); continue
                        ncomp += 1
                        win = [(dr, dc) for dr in range(-hh, hh + 1) for dc in range(-hh, hh + 1)]
                        if method == 'sad':
                            v = z3.Sum([z3.If(lv(r + dr, c + dc) - rv(r + dr, c2 + dc) < 0, rv(r + dr, c2 + dc) - lv(r + dr, c + dc), lv(r + dr, c + dc) - rv(r + dr, c2 + dc)) for dr, dc in win])
                        elif method == 'ssd':
                            v = z3.Sum([(lv(r + dr, c + dc) - rv(r + dr, c2 + dc)) * (lv(r + dr, c + dc) - rv(r + dr, c2 + dc)) for dr, dc in win])
                        else:
                            a = [lv(r + dr, c + dc) > lv(r, c) for dr, dc in win]; b = [rv(r + dr, c2 + dc) > rv(r, c2) for dr, dc in win]
                            v = z3.Sum([z3.If(x_ != y_, z3.RealVal(1), z3.RealVal(0)) for x_, y_ in zip(a, b)])
                        if not masks:
                            props.append(("subpixel-cost-is-the-measure-on-the-linearly-interpolated-right-image[%d,%d,%s]" % (r, c, d), z3.And(e.tag == 0, e.val == v)))
                            continue
                        # computable <=> left centre valid, no nodata in the left window, and for EACH right column the interpolated sample is
                        # built from (one column for an integer position, the two neighbours otherwise): centre valid and no nodata in its window
                        fl = c2.numerator // c2.denominator
                        rcols = [fl] if c2.denominator == 1 else [fl, fl + 1]
                        cm = z3.And(z3.Not(invL(r, c)), *[z3.Not(nodL(r + dr, c + dc)) for dr, dc in win],
                                    *[z3.Not(invR(r, x)) for x in rcols], *[z3.Not(nodR(r + dr, x + dc)) for x in rcols for dr, dc in win])
                        masked_any.append(z3.Not(cm))
                        props.append(("subpixel-cost-is-the-measure-nan-iff-a-contributing-pixel-is-masked[%d,%d,%s]" % (r, c, d),
                                      z3.If(cm, z3.And(e.tag == 0, e.val == v), e.tag == 1)))
        wit = [("a-computable-cost-exists", z3.BoolVal(ncomp > 0))]
        if masks and masked_any:
            wit.append(("a-subpixel-cost-is-masked", z3.Or(*masked_any)))
        col.check_path(props, label='p%d' % len(EX.trace), extra=ex, witnesses=wit, group=(method != 'ssd'))
        info['fn'] = instr.fn_hash(IT.shift_right_img, MC.AbstractMatchingCost.allocate_cost_volume, MC.AbstractMatchingCost.cv_masked, MC.AbstractMatchingCost.point_interval,
                                   SS_.SadSsd.compute_cost_volume, SS_.SadSsd.pixel_wise_aggregation, CE.Census.compute_cost_volume, IT.census_transform,
                                   *([MC.AbstractMatchingCost.masks_dilatation] if masks else []))
    res, stats = explore(h, max_paths=64)
    return col.result(stats, functions=info.get('fn', {}),
                      bounds={'measure': method, 'window': ws, 'image': [H, W], 'interval': [dmin, dmax], 'subpix': subpix, 'masks': 'symbolic 4-valued' if masks else 'none',
                              'radiometry': 'integers (exact domain)'},
                      stubs=['scipy.ndimage.zoom(order=1) = the linear map read off the real zoom applied to unit vectors (weights multiples of 1/64)'],
                      assumptions=['C02 sub-pixel: subpix 2 or 4 (interpolation weights exact in float32); masks %s' % ('take values 0 (valid), 1 (nodata), 2..3 (invalid); a fractional right position is computable iff both neighbouring columns are' if masks else 'none')])


def _sqrt_atoms(t):
    out = []; seen = set()

    def walk(x):
        if x.get_id() in seen:
            return
        seen.add(x.get_id())
        if z3.is_app(x) and x.decl().name() == 'sqrt_uf':
            out.append(x)
        for ch in x.children():
            walk(ch)
    walk(t)
    return out


def _valid(EX, claim, ms=20000):
    from vf.harness.c10 import _valid as v10
    return v10(EX, claim, ms)


def _valid_abstract(claim, ms):
    """validity with the sqrt atoms replaced by fresh reals and the integer samples by fresh reals (superset of models): pure QF_NRA"""
    atoms = _sqrt_atoms(claim)
    sub = [(a_, z3.Real('S_abs_%d' % i)) for i, a_ in enumerate(atoms)]
    c2 = z3.substitute(claim, *sub) if sub else claim
    ints = []; seen = set()

    def walk(x):
        if x.get_id() in seen:
            return
        seen.add(x.get_id())
        if z3.is_app(x) and x.decl().kind() == z3.Z3_OP_TO_REAL:
            ints.append(x); return
        for ch in x.children():
            walk(ch)
    walk(c2)
    c3 = z3.substitute(c2, *[(t, z3.Real('D_abs_%d' % i)) for i, t in enumerate(ints)]) if ints else c2
    if _sqrt_atoms(c3):
        return False
    s_ = z3.SolverFor('QF_NRA'); s_.set('timeout', int(ms))
    s_.add(z3.Not(c3))
    try:
        return str(s_.check()) == 'unsat'
    except z3.Z3Exception:
        return False


def zncc_volume(ws=3, H=3, W=4, dmin=-1, dmax=0, vmax=15, cap=300, block=(), npins=3, seed=0):
    """C02 for ZNCC, structural part only: shape, disparities, type of measure / maximal cost, NaN exactly where a window leaves an
    image, a finite number elsewhere.  Exact domain; sqrt is an uninterpreted function with s >= 0, s*s == x."""
    import xarray as xr
    from vf import symnp as S, instr
    from vf.explore import EX, explore
    from vf.hutil import Collector
    from vf.harness import mc
    import pandora.matching_cost.matching_cost as MC, pandora.matching_cost.zncc as ZN, pandora.img_tools as IT
    mc.install_stubs(S)
    col = Collector(cap_s=cap, block=list(block))
    info = {}
    S.MODE['exact'] = True; S.REALS['div'] = True
    ds = list(range(dmin, dmax + 1)); hh = ws // 2; n = ws * ws
    from fractions import Fraction
    EPS = z3.RealVal(str(Fraction(10 ** (-15))))          # the exact value of the double constant of compute_std_raster

    def h():
        shapes = {}
        L, li, _ = mc.make_image(xr, S, EX, 'l', H, W, shapes=shapes, vmax=vmax)
        R, ri, _ = mc.make_image(xr, S, EX, 'r', H, W, shapes=shapes, vmax=vmax)
        mc.add_disparity(xr, S, L, H, W, dmin, dmax)
        col.shapes = shapes
        ex = {'zncc_volume': True, 'ws': ws, 'H': H, 'W': W, 'dmin': dmin, 'dmax': dmax}
        try:
            out = mc.run_chain(S, L, R, 'zncc', ws, upto='masked')
        except S.Unsupported:
            raise
        except Exception as e:      # noqa
            col.path_exception(e, label='p%d' % len(EX.trace), extra=ex)
            return
        cv = out['cv']; o = cv["cost_volume"].data
        props = [("cost-volume-shape-and-disparities", z3.BoolVal(tuple(o.shape) == (H, W, len(ds)) and list(cv.coords["disp"].data) == ds)),
                 ("type-of-measure-is-max-and-maximal-cost-1", z3.BoolVal(cv.attrs.get("type_measure") == "max" and cv.attrs.get("cmax") == 1))]
        lv = lambda r, c: li._a[r, c].t.val
        rv = lambda r, c: ri._a[r, c].t.val
        ncomp = 0
        value_claims = []
        if tuple(o.shape) == (H, W, len(ds)):
            for r in range(H):
                for c in range(W):
                    for k, d in enumerate(ds):
                        c2 = c + d
                        e = S.xlift(o._a[r, c, k])
                        g = not (r - hh < 0 or r + hh >= H or c - hh < 0 or c + hh >= W or c2 - hh < 0 or c2 + hh >= W)
                        if not g:
                            props.append(("nan-where-a-window-leaves-an-image[%d,%d,%d]" % (r, c, d), e.tag == 1)); continue
                        ncomp += 1
                        win = [(dr, dc) for dr in range(-hh, hh + 1) for dc in range(-hh, hh + 1)]
                        sl = z3.Sum([lv(r + dr, c + dc) for dr, dc in win]); sr = z3.Sum([rv(r + dr, c2 + dc) for dr, dc in win])
                        sll = z3.Sum([lv(r + dr, c + dc) * lv(r + dr, c + dc) for dr, dc in win]); srr = z3.Sum([rv(r + dr, c2 + dc) * rv(r + dr, c2 + dc) for dr, dc in win])
                        slr = z3.Sum([lv(r + dr, c + dc) * rv(r + dr, c2 + dc) for dr, dc in win])
                        # The VALUE (E[LR]-E[L]E[R])/(std L std R) is a degree-6 polynomial identity with square-root atoms over 18
                        # variables: z3 does not decide it within the caps (tried: uninterpreted sqrt with s*s == x, lemma-matched
                        # arguments, Cauchy-Schwarz lemmas) -> outside the claim.  Decided here: finite wherever computable.
                        props.append(("zncc-is-a-finite-number-where-computable[%d,%d,%d]" % (r, c, d), e.tag == 0))
                        # value at pinned image pairs (below): the definition with fresh square-root variables (s >= 0, s*s == var)
                        m2l = sll / n; m2r = srr / n
                        varl = m2l - (sl / n) * (sl / n); varr = m2r - (sr / n) * (sr / n); cov = slr / n - (sl / n) * (sr / n)
                        varl_c = z3.If(varl < EPS * m2l, 0, varl); varr_c = z3.If(varr < EPS * m2r, 0, varr)
                        qL = z3.Real('qL_%d_%d_%d' % (r, c, k)); qR = z3.Real('qR_%d_%d_%d' % (r, c, k))
                        value_claims.append(z3.Implies(z3.And(qL >= 0, qL * qL == varl_c, qR >= 0, qR * qR == varr_c),
                                                       z3.And(e.tag == 0, z3.If(z3.Or(varl_c == 0, varr_c == 0), e.val == 0, e.val * qL * qR == cov))))
        # vacuity witness: the path condition (with the square-root axioms) is satisfied by a pinned concrete image pair
        rng = np.random.RandomState(3 + seed)
        pins = []
        for k_ in range(npins):
            vals = [int(rng.randint(0, vmax + 1)) for _ in range(2 * H * W)]
            if k_ == 1:            # a pair with constant (zero-variance) windows in the left image
                vals[:H * W] = [7] * (H * W)
            pins.append(z3.And(*[e_.t.val == v_ for e_, v_ in zip(list(li._a.flat) + list(ri._a.flat), vals)]))
        # the VALUE for arbitrary images is outside the claim (see above); it is decided at `npins` pinned image pairs, where the query
        # is ground: zncc * sqrt(var L) * sqrt(var R) == cov, 0 on zero variance
        for k_, pin in enumerate(pins):
            props.append(("zncc-value-is-the-normalised-cross-correlation-at-pinned-image-pair-%d" % k_, z3.Implies(pin, z3.And(*value_claims)) if value_claims else z3.BoolVal(True)))
        col.check_path(props, label='p%d' % len(EX.trace), extra=ex, witnesses=[("a-computable-cost-exists-on-a-pinned-image-pair", z3.And(pins[0], z3.BoolVal(ncomp > 0)))], group=False)
        info['fn'] = instr.fn_hash(ZN.Zncc.compute_cost_volume, ZN.apply_divide_standard, IT.compute_mean_raster, IT.compute_std_raster, MC.AbstractMatchingCost.point_interval)
    res, stats = explore(h, max_paths=64)
    return col.result(stats, functions=info.get('fn', {}),
                      bounds={'measure': 'zncc', 'window': ws, 'image': [H, W], 'interval': [dmin, dmax], 'radiometry': 'integers in [0, %d]' % vmax, 'masks': 'none', 'subpix': 1},
                      stubs=['np.sqrt = uninterpreted function with sqrt(x) >= 0 and sqrt(x)^2 == x'],
                      assumptions=['C02 (zncc): reals-for-floats (float rounding of sums, division and square root outside the claim)'])


def zncc_bands(ws=3, H=3, W=4, dmin=-1, dmax=0, vmax=15, cap=120, block=(), subpix=1):
    """ZNCC band selection (relational): the cost volume of a two-band pair whose band ORDER differs between the two images, computed
    on band 'g', must equal the cost volume of the single-band pair made of the two 'g' layers (same symbolic samples)"""
    import xarray as xr
    from vf import symnp as S, instr
    from vf.explore import EX, explore
    from vf.hutil import Collector
    from vf.harness import mc
    import pandora.matching_cost.zncc as ZN, pandora.img_tools as IT
    mc.install_stubs(S)
    col = Collector(cap_s=cap, block=list(block))
    info = {}
    S.MODE['exact'] = True; S.REALS['div'] = True

    def h():
        shapes = {}
        L, li, _ = mc.make_image(xr, S, EX, 'l', H, W, bands=['r', 'g'], shapes=shapes, vmax=vmax)
        R, ri, _ = mc.make_image(xr, S, EX, 'r', H, W, bands=['g', 'r'], shapes=shapes, vmax=vmax)
        mc.add_disparity(xr, S, L, H, W, dmin, dmax)
        col.shapes = shapes
        ex = {'zncc_bands': True, 'ws': ws, 'H': H, 'W': W, 'dmin': dmin, 'dmax': dmax, 'subpix': subpix}

        def mono(arr2d, disp):
            d = xr.Dataset({"im": (["row", "col"], S.SymArray(arr2d.copy(), 'x4'))}, coords={"row": np.arange(H), "col": np.arange(W)})
            d.attrs = {"valid_pixels": 0, "no_data_mask": 1, "crs": None, "transform": None, "no_data_img": -9999}
            if disp:
                mc.add_disparity(xr, S, d, H, W, dmin, dmax)
            return d
        Lm = mono(li._a[1], True); Rm = mono(ri._a[0], False)
        try:
            o2 = mc.run_chain(S, L, R, 'zncc', ws, subpix=subpix, band='g', upto='masked')['cv']["cost_volume"].data
            o1 = mc.run_chain(S, Lm, Rm, 'zncc', ws, subpix=subpix, upto='masked')['cv']["cost_volume"].data
        except S.Unsupported:
            raise
        except Exception as e:      # noqa
            col.path_exception(e, label='p%d' % len(EX.trace), extra=ex); return
        props = [("same-shape", z3.BoolVal(tuple(o1.shape) == tuple(o2.shape)))]
        if tuple(o1.shape) == tuple(o2.shape):
            for idx in np.ndindex(*o1.shape):
                a_, b_ = o1._a[idx], o2._a[idx]
                ta, tb = S.xlift(a_), S.xlift(b_)
                if ta.val.eq(tb.val) and ta.tag.eq(tb.tag):
                    props.append(("multiband-cost-on-the-selected-band-equals-the-single-band-cost%s" % (list(idx),), z3.BoolVal(True)))
                else:
                    props.append(("multiband-cost-on-the-selected-band-equals-the-single-band-cost%s" % (list(idx),), S.term_eq(a_, b_, 'x4')))
        rng = np.random.RandomState(3)
        pins = [z3.And(*[e_.t.val == int(rng.randint(0, vmax + 1)) for e_ in list(li._a.flat) + list(ri._a.flat)]) for _ in range(3)]
        col.check_path(props, label='p%d' % len(EX.trace), extra=ex, witnesses=[("pinned-images-satisfy-the-path-condition", pins[0])], group=False, pins=pins)
        info['fn'] = instr.fn_hash(ZN.Zncc.compute_cost_volume, IT.compute_mean_raster, IT.compute_std_raster, IT.shift_right_img)
    res, stats = explore(h, max_paths=16)
    return col.result(stats, functions=info.get('fn', {}), bounds={'measure': 'zncc', 'window': ws, 'image': [2, H, W], 'interval': [dmin, dmax], 'subpix': subpix,
                                                                   'bands': "left ['r','g'], right ['g','r'], band 'g'"},
                      stubs=['np.sqrt = uninterpreted function with sqrt(x) >= 0 and sqrt(x)^2 == x'])


def replay_zncc_bands(cex):
    import xarray as xr
    from pandora import matching_cost
    from pandora.criteria import validity_mask
    x = cex['extra']; inp = cex['inputs']
    H, W, ws, dmin, dmax, subpix = x['H'], x['W'], x['ws'], x['dmin'], x['dmax'], x.get('subpix', 1)
    li = np.array(inp['l'], np.float32).reshape(2, H, W); ri = np.array(inp['r'], np.float32).reshape(2, H, W)

    def mk(im, bands, disp):
        if bands:
            d = xr.Dataset({"im": (["band_im", "row", "col"], im.copy())}, coords={"band_im": bands, "row": np.arange(H), "col": np.arange(W)})
        else:
            d = xr.Dataset({"im": (["row", "col"], im.copy())}, coords={"row": np.arange(H), "col": np.arange(W)})
        d.attrs = {"valid_pixels": 0, "no_data_mask": 1, "crs": None, "transform": None, "no_data_img": -9999}
        if disp:
            d.coords["band_disp"] = ["min", "max"]
            d["disparity"] = xr.DataArray(np.array([np.full((H, W), dmin), np.full((H, W), dmax)]), dims=["band_disp", "row", "col"]); d.attrs["disparity_source"] = [dmin, dmax]
        return d

    def run(L, R, band):
        m = matching_cost.AbstractMatchingCost(**{"matching_cost_method": "zncc", "window_size": ws, "subpix": subpix, "band": band})
        a = L["disparity"].sel(band_disp="min").data; b = L["disparity"].sel(band_disp="max").data
        cv = m.allocate_cost_volume(L, (a, b), None); cv = validity_mask(L, R, cv); cv = m.compute_cost_volume(L, R, cv); m.cv_masked(L, R, cv, a, b)
        return cv["cost_volume"].data
    try:
        o2 = run(mk(li, ['r', 'g'], True), mk(ri, ['g', 'r'], False), 'g')
        o1 = run(mk(li[1], None, True), mk(ri[0], None, False), None)
    except Exception as e:      # noqa
        return {'violates': True, 'detail': 'zncc chain raised %r' % (e,)}
    if o1.shape != o2.shape or not np.allclose(o1, o2, atol=1e-5, equal_nan=True):
        w = np.argwhere(~np.isclose(o1, o2, atol=1e-5, equal_nan=True))
        return {'violates': True, 'detail': 'zncc on band g of the two-band pair differs from zncc of the single-band pair at %s: %r vs %r (left %s, right %s)' % (
            w[0].tolist() if len(w) else '?', float(o2[tuple(w[0])]) if len(w) else None, float(o1[tuple(w[0])]) if len(w) else None, li.tolist(), ri.tolist())}
    return {'violates': False, 'detail': 'multiband and single-band zncc agree'}


def mean_raster_fp(H=3, W=2, win=1, cap=120, block=()):
    """compute_mean_raster in the bit-precise float domain: for integer-valued float32 samples up to 2^24 the window sums must be exact
    (the code accumulates in float64), wherever the window sits in the image: with a 1x1 window the result IS the sample; with a larger
    window it is the float64 quotient of the exact integer sum.  (A float32 accumulator rounds sums above 2^24 and makes the zncc
    statistics depend on the row position.)"""
    import xarray as xr
    from vf import symnp as S, instr
    from vf.explore import EX, explore
    from vf.hutil import Collector
    import pandora.img_tools as IT
    col = Collector(cap_s=cap, block=list(block))
    info = {}
    S.MODE['exact'] = False
    F32, F64, RNE = z3.Float32(), z3.Float64(), z3.RNE()

    def h():
        im = S.fresh_array('im', (H, W), 'f4')
        col.shapes = {'im': ((H, W), 'f4')}
        for e in im._a.flat:
            EX.assume(z3.And(z3.fpGEQ(e.t, z3.FPVal(0.0, F32)), z3.fpLEQ(e.t, z3.FPVal(float(2 ** 24), F32)), z3.fpRoundToIntegral(RNE, e.t) == e.t))
        ds = xr.Dataset({"im": (["row", "col"], im)}, coords={"row": np.arange(H), "col": np.arange(W)})
        ex = {'mean_raster_fp': True, 'H': H, 'W': W, 'win': win}
        try:
            out = IT.compute_mean_raster(ds, win)
        except S.Unsupported:
            raise
        except Exception as e:      # noqa
            col.path_exception(e, label='p%d' % len(EX.trace), extra=ex); return
        props = [("shape", z3.BoolVal(tuple(out.shape) == (H - win + 1, W - win + 1)))]
        if tuple(out.shape) == (H - win + 1, W - win + 1):
            for r in range(H - win + 1):
                for c in range(W - win + 1):
                    o = S.lift(out._a[r, c], 'f8')
                    tot = None
                    for dr in range(win):
                        for dc in range(win):
                            v = z3.fpToFP(RNE, im._a[r + dr, c + dc].t, F64)
                            tot = v if tot is None else z3.fpAdd(RNE, tot, v)        # exact: integers below 2^53
                    exp = z3.fpDiv(RNE, tot, z3.FPVal(float(win * win), F64))
                    props.append(("window-mean-is-the-double-precision-quotient-of-the-exact-sum[%d,%d]" % (r, c), z3.fpEQ(o, exp)))
        col.check_path(props, label='p%d' % len(EX.trace), extra=ex, group=False, witnesses=[("reached", z3.BoolVal(True))])
        info['fn'] = instr.fn_hash(IT.compute_mean_raster)
    res, stats = explore(h, max_paths=8)
    return col.result(stats, functions=info.get('fn', {}), bounds={'image': [H, W], 'window': win, 'samples': 'integer-valued float32 in [0, 2^24], bit-precise'})


def replay_mean_raster(cex):
    import xarray as xr
    import pandora.img_tools as IT
    x = cex['extra']; H, W, win = x['H'], x['W'], x['win']
    im = np.array(cex['inputs']['im'], np.float32).reshape(H, W)
    ds = xr.Dataset({"im": (["row", "col"], im.copy())}, coords={"row": np.arange(H), "col": np.arange(W)})
    try:
        out = np.asarray(IT.compute_mean_raster(ds, win), dtype=np.float64)
    except Exception as e:      # noqa
        return {'violates': True, 'detail': 'compute_mean_raster raised %r' % (e,)}
    for r in range(H - win + 1):
        for c in range(W - win + 1):
            exp = float(im[r:r + win, c:c + win].astype(np.float64).sum()) / float(win * win)
            if float(out[r, c]) != exp:
                return {'violates': True, 'detail': 'window mean at (%d,%d) is %r, the exact sum of the samples %s over %d is %r' % (r, c, float(out[r, c]), im[r:r + win, c:c + win].tolist(), win * win, exp)}
    return {'violates': False, 'detail': 'window means are exact'}


def replay_zncc(cex):
    import xarray as xr
    from pandora import matching_cost
    from pandora.criteria import validity_mask
    x = cex['extra']; inp = cex['inputs']
    H, W, ws, dmin, dmax = x['H'], x['W'], x['ws'], x['dmin'], x['dmax']
    hh = ws // 2
    li = np.array(inp['l'], np.float32).reshape(H, W); ri = np.array(inp['r'], np.float32).reshape(H, W)

    masks = bool(x.get('masks'))
    lm = np.array(inp['lmsk'], np.int16).reshape(H, W) if masks else np.zeros((H, W), np.int16)
    rm = np.array(inp['rmsk'], np.int16).reshape(H, W) if masks else np.zeros((H, W), np.int16)

    def mk(im, m_):
        d = xr.Dataset({"im": (["row", "col"], im.copy())}, coords={"row": np.arange(H), "col": np.arange(W)})
        d.attrs = {"valid_pixels": 0, "no_data_mask": 1, "crs": None, "transform": None, "no_data_img": -9999}
        if masks:
            d["msk"] = xr.DataArray(m_.copy(), dims=["row", "col"])
        return d
    L = mk(li, lm); R = mk(ri, rm)
    L.coords["band_disp"] = ["min", "max"]
    L["disparity"] = xr.DataArray(np.array([np.full((H, W), dmin), np.full((H, W), dmax)]), dims=["band_disp", "row", "col"]); L.attrs["disparity_source"] = [dmin, dmax]
    try:
        m = matching_cost.AbstractMatchingCost(**{"matching_cost_method": "zncc", "window_size": ws})
        a = L["disparity"].sel(band_disp="min").data; b = L["disparity"].sel(band_disp="max").data
        cv = m.allocate_cost_volume(L, (a, b), None); cv = validity_mask(L, R, cv); cv = m.compute_cost_volume(L, R, cv); m.cv_masked(L, R, cv, a, b)
    except Exception as e:      # noqa
        return {'violates': True, 'detail': 'zncc chain raised %r' % (e,)}
    got = cv["cost_volume"].data
    ds = list(range(dmin, dmax + 1))
    if got.shape != (H, W, len(ds)):
        return {'violates': True, 'detail': 'cost volume shape %s' % (got.shape,)}
    if cv.attrs.get("type_measure") != "max" or cv.attrs.get("cmax") != 1:
        return {'violates': True, 'detail': 'type of measure %r / cmax %r' % (cv.attrs.get("type_measure"), cv.attrs.get("cmax"))}
    L64 = li.astype(np.float64); R64 = ri.astype(np.float64)
    for r in range(H):
        for c in range(W):
            for k, d in enumerate(ds):
                c2 = c + d
                g = not (r - hh < 0 or r + hh >= H or c - hh < 0 or c + hh >= W or c2 - hh < 0 or c2 + hh >= W)
                g_ = float(got[r, c, k])
                if not g:
                    if g_ == g_:
                        return {'violates': True, 'detail': 'cost[%d,%d,%d] is %r where a window leaves an image' % (r, c, d, g_)}
                    continue
                wl = L64[r - hh:r + hh + 1, c - hh:c + hh + 1]; wr = R64[r - hh:r + hh + 1, c2 - hh:c2 + hh + 1]
                vl = (wl ** 2).mean() - wl.mean() ** 2; vr = (wr ** 2).mean() - wr.mean() ** 2
                exp = 0.0 if (vl <= 1e-12 or vr <= 1e-12) else ((wl * wr).mean() - wl.mean() * wr.mean()) / np.sqrt(vl * vr)
                if g_ != g_ or abs(g_ - exp) > 1e-4:
                    return {'violates': True, 'detail': 'zncc[%d,%d] at disparity %d is %r, the definition gives %r (left %s, right %s)' % (r, c, d, g_, exp, li.tolist(), ri.tolist())}
    return {'violates': False, 'detail': 'zncc volume equals the definition (tolerance 1e-4)'}


def replay_subpix(cex):
    import xarray as xr
    from fractions import Fraction
    from pandora import matching_cost
    from pandora.criteria import validity_mask
    x = cex['extra']; inp = cex['inputs']
    H, W, ws, dmin, dmax, method, subpix = x['H'], x['W'], x['ws'], x['dmin'], x['dmax'], x['method'], x['subpix']
    hh = ws // 2
    li = np.array(inp['l'], np.float32).reshape(H, W); ri = np.array(inp['r'], np.float32).reshape(H, W)

    masks = bool(x.get('masks'))
    lm = np.array(inp['lmsk'], np.int16).reshape(H, W) if masks else np.zeros((H, W), np.int16)
    rm = np.array(inp['rmsk'], np.int16).reshape(H, W) if masks else np.zeros((H, W), np.int16)

    def mk(im, m_):
        d = xr.Dataset({"im": (["row", "col"], im.copy())}, coords={"row": np.arange(H), "col": np.arange(W)})
        d.attrs = {"valid_pixels": 0, "no_data_mask": 1, "crs": None, "transform": None, "no_data_img": -9999}
        if masks:
            d["msk"] = xr.DataArray(m_.copy(), dims=["row", "col"])
        return d
    L = mk(li, lm); R = mk(ri, rm)
    L.coords["band_disp"] = ["min", "max"]
    L["disparity"] = xr.DataArray(np.array([np.full((H, W), dmin), np.full((H, W), dmax)]), dims=["band_disp", "row", "col"]); L.attrs["disparity_source"] = [dmin, dmax]
    try:
        m = matching_cost.AbstractMatchingCost(**{"matching_cost_method": method, "window_size": ws, "subpix": subpix})
        a = L["disparity"].sel(band_disp="min").data; b = L["disparity"].sel(band_disp="max").data
        cv = m.allocate_cost_volume(L, (a, b), None); cv = validity_mask(L, R, cv); cv = m.compute_cost_volume(L, R, cv); m.cv_masked(L, R, cv, a, b)
    except Exception as e:      # noqa
        return {'violates': True, 'detail': 'matching cost chain (subpix %d) raised %r' % (subpix, e)}
    got = cv["cost_volume"].data
    ds = [Fraction(dmin) + Fraction(i, subpix) for i in range((dmax - dmin) * subpix + 1)]
    if got.shape != (H, W, len(ds)):
        return {'violates': True, 'detail': 'cost volume shape %s, expected %s' % (got.shape, (H, W, len(ds)))}
    R64 = ri.astype(np.float64); L64 = li.astype(np.float64)

    def rv(r, xx):
        fl = xx.numerator // xx.denominator; f = float(xx - fl)
        return R64[r, fl] if f == 0 else (1 - f) * R64[r, fl] + f * R64[r, fl + 1]
    for r in range(H):
        for c in range(W):
            for k, d in enumerate(ds):
                c2 = c + d; lo_ = c2 - hh; hi_ = c2 + hh
                hi_need = hi_ if hi_.denominator == 1 else Fraction(hi_.numerator // hi_.denominator + 1)
                g = not (r - hh < 0 or r + hh >= H or c - hh < 0 or c + hh >= W or lo_ < 0 or hi_need > W - 1)
                if not g:
                    exp = np.nan
                else:
                    win = [(dr, dc) for dr in range(-hh, hh + 1) for dc in range(-hh, hh + 1)]
                    if method == 'sad':
                        exp = sum(abs(L64[r + dr, c + dc] - rv(r + dr, c2 + dc)) for dr, dc in win)
                    elif method == 'ssd':
                        exp = sum((L64[r + dr, c + dc] - rv(r + dr, c2 + dc)) ** 2 for dr, dc in win)
                    else:
                        exp = sum((L64[r + dr, c + dc] > L64[r, c]) != (rv(r + dr, c2 + dc) > rv(r, c2)) for dr, dc in win)
                    fl = c2.numerator // c2.denominator
                    rcols = [fl] if c2.denominator == 1 else [fl, fl + 1]
                    bad = lm[r, c] > 1 or any(lm[r + dr, c + dc] == 1 for dr, dc in win) or any(rm[r, xx] > 1 for xx in rcols) or \
                        any(rm[r + dr, xx + dc] == 1 for xx in rcols for dr, dc in win)
                    if bad:
                        exp = np.nan
                g_ = float(got[r, c, k])
                if (exp != exp) != (g_ != g_) or (exp == exp and g_ != float(np.float32(exp))):
                    return {'violates': True, 'detail': 'cost[%d,%d] at disparity %s is %r, the measure on the interpolated right image gives %r (left %s, right %s)' %
                            (r, c, float(d), g_, float(exp), li.tolist(), ri.tolist()) + (' masks left %s right %s' % (lm.tolist(), rm.tolist()) if masks else '')}
    return {'violates': False, 'detail': 'sub-pixel cost volume equals the reference'}


def _np_oracle(L, R, method, ws, dmin, dmax, mL, mR, grids=None, lcodes=(0, 1), rcodes=(0, 1)):
    H, W = L.shape; h = ws // 2; ds = list(range(dmin, dmax + 1))
    out = np.full((H, W, len(ds)), np.nan, dtype=np.float32)
    nodL = (mL == lcodes[1]); nodR = (mR == rcodes[1]); invL = (mL != lcodes[0]) & ~nodL; invR = (mR != rcodes[0]) & ~nodR

    def cb(img, r, c):
        return [img[r + dr, c + dc] > img[r, c] for dr in range(-h, h + 1) for dc in range(-h, h + 1)]
    for r in range(H):
        for c in range(W):
            for k, d in enumerate(ds):
                c2 = c + d
                if r - h < 0 or r + h >= H or c - h < 0 or c + h >= W or c2 - h < 0 or c2 + h >= W:
                    continue
                if nodL[r - h:r + h + 1, c - h:c + h + 1].any() or nodR[r - h:r + h + 1, c2 - h:c2 + h + 1].any() or invL[r, c] or invR[r, c2]:
                    continue
                if grids is not None and not (grids[0][r, c] <= d <= grids[1][r, c]):
                    continue
                wl = L[r - h:r + h + 1, c - h:c + h + 1]; wr = R[r - h:r + h + 1, c2 - h:c2 + h + 1]
                out[r, c, k] = np.abs(wl - wr).sum() if method == 'sad' else (((wl - wr) ** 2).sum() if method == 'ssd' else
                                                                            sum(a != b for a, b in zip(cb(L, r, c), cb(R, r, c2))))
    return out


def replay(cex):
    import xarray as xr
    from pandora import matching_cost, disparity
    from pandora.criteria import validity_mask
    if cex['extra'].get('subpix_volume'):
        return replay_subpix(cex)
    if cex['extra'].get('zncc_volume'):
        return replay_zncc(cex)
    if cex['extra'].get('zncc_bands'):
        return replay_zncc_bands(cex)
    if cex['extra'].get('mean_raster_fp'):
        return replay_mean_raster(cex)
    x = cex['extra']; inp = cex['inputs']
    H, W, ws, dmin, dmax, method = x['H'], x['W'], x['ws'], x['dmin'], x['dmax'], x['method']
    bands = x.get('bands'); band = x.get('band'); col0 = x.get('col0', 0)
    shp = (H, W) if not bands else (len(bands), H, W)

    lcodes = tuple(x.get('lcodes', (0, 1))); rcodes = tuple(x.get('rcodes', (0, 1)))

    rbands = x.get('rbands') or bands

    def mk(name):
        codes = lcodes if name == 'l' else rcodes
        im = np.array(inp[name], np.float32).reshape(shp)
        dims = ["row", "col"] if not bands else ["band_im", "row", "col"]
        coords = {"row": np.arange(H), "col": np.arange(col0, col0 + W)}
        if bands:
            coords["band_im"] = list(bands if name == 'l' else rbands)
        ds_ = xr.Dataset({"im": (dims, im.copy())}, coords=coords)
        ds_.attrs = {"valid_pixels": codes[0], "no_data_mask": codes[1], "crs": None, "transform": None, "no_data_img": -9999}
        mk_ = np.full((H, W), codes[0], np.int16)
        if x['masks']:
            mk_ = np.array(inp[name + 'msk'], np.int16).reshape(H, W)
            ds_["msk"] = xr.DataArray(mk_.copy(), dims=["row", "col"])
        return ds_, im, mk_
    L, li, lm = mk('l'); R, ri, rm = mk('r')
    L.coords["band_disp"] = ["min", "max"]
    grids = None
    if x['grids']:
        if x['grids'] == 'frac':
            grids = (np.array(inp['gmin'], np.float64).reshape(H, W), np.array(inp['gmax'], np.float64).reshape(H, W))
            grids[0][0, 0] = dmin - 0.5; grids[1][0, 1] = dmax + 0.5
        else:
            grids = (np.array(inp['gmin'], np.int64).reshape(H, W), np.array(inp['gmax'], np.int64).reshape(H, W))
        L["disparity"] = xr.DataArray(np.stack(grids).astype(np.float32), dims=["band_disp", "row", "col"]); L.attrs["disparity_source"] = "grid.tif"
    else:
        L["disparity"] = xr.DataArray(np.array([np.full((H, W), dmin), np.full((H, W), dmax)]), dims=["band_disp", "row", "col"]); L.attrs["disparity_source"] = [dmin, dmax]
    bad = []
    try:
        m = matching_cost.AbstractMatchingCost(**{"matching_cost_method": method, "window_size": ws, "band": band})
        a = L["disparity"].sel(band_disp="min").data; b = L["disparity"].sel(band_disp="max").data
        cv = m.allocate_cost_volume(L, (a, b), None); cv = validity_mask(L, R, cv); cv = m.compute_cost_volume(L, R, cv); m.cv_masked(L, R, cv, a, b)
        dm = disparity.AbstractDisparity(**{"disparity_method": "wta", "invalid_disparity": -9999}).to_disp(cv, L, R)
    except Exception as e:      # noqa
        big = max(abs(dmin), abs(dmax)) >= W - 2 * (ws // 2) - (0 if method in ('sad', 'ssd') else 0)
        return {'violates': True, 'known': 'KF-C02-interval-beyond-image-width' if (isinstance(e, ValueError) and big) else None,
                'detail': 'matching cost chain raised %r (image %dx%d, interval [%d,%d], window %d, %s)' % (e, H, W, dmin, dmax, ws, method)}
    lsel = li if not bands else li[list(bands).index(band)]; rsel = ri if not bands else ri[list(rbands).index(band)]
    o = _np_oracle(lsel, rsel, method, ws, dmin, dmax, lm, rm, grids, lcodes, rcodes)
    got = cv["cost_volume"].data
    if got.shape != o.shape:
        return {'violates': True, 'detail': 'cost volume shape %s, expected %s' % (got.shape, o.shape)}
    nanmis = np.isnan(got) != np.isnan(o); valmis = ~nanmis & ~np.isnan(o) & (got != o)
    if nanmis.any() or valmis.any():
        w = np.argwhere(nanmis | valmis)[0]
        bad.append('cost[%s] is %r, the measure gives %r' % (w.tolist(), float(got[tuple(w)]), float(o[tuple(w)])))
    vm = dm["validity_mask"].data.astype(int); allnan = np.isnan(got).all(axis=2); isinv = dm["disparity_map"].data == -9999
    hh = ws // 2
    inner = np.zeros((H, W), bool); inner[hh:H - hh, hh:W - hh] = True
    if (((vm & INV4) != 0) != allnan)[inner].any() or (allnan != isinv)[inner].any():
        w = np.argwhere((((vm & INV4) != 0) != allnan) | (allnan != isinv))[0]
        bad.append('pixel %s: flags %d, all-NaN %s, disparity %r' % (w.tolist(), vm[tuple(w)], bool(allnan[tuple(w)]), float(dm["disparity_map"].data[tuple(w)])))
    if (vm[~inner] != 1).any():
        bad.append('a border pixel carries flags %s' % sorted(set(vm[~inner].tolist())))
    if (((vm & 2) != 0) != allnan)[inner].any():
        bad.append('bit 1 differs from "no computable cost"')
    # documented cause of bits 0, 6, 2, 7 over the global interval
    nodL_ = (lm == lcodes[1]); invL_ = (lm != lcodes[0]) & ~nodL_; invR_ = (rm != rcodes[0]) & ~(rm == rcodes[1])
    dsl = list(range(dmin, dmax + 1))
    for r in range(H):
        for c in range(W):
            if not inner[r, c]:
                continue
            inimg = [d for d in dsl if hh <= c + d < W - hh]
            exp_bits = {1: bool(nodL_[r - hh:r + hh + 1, c - hh:c + hh + 1].any()), 64: bool(invL_[r, c]), 4: 0 < len(inimg) < len(dsl),
                        128: bool(inimg) and all(invR_[r, c + d] for d in inimg)}
            for bit, e in exp_bits.items():
                if bool(vm[r, c] & bit) != e:
                    bad.append('pixel (%d,%d): bit %d is %s, its documented cause %s (flags %d, interval [%d,%d], window %d, width %d)' % (
                        r, c, bit.bit_length() - 1, 'set' if vm[r, c] & bit else 'clear', 'holds' if e else 'does not hold', vm[r, c], dmin, dmax, ws, W))
                    break
            if bad:
                break
        if bad:
            break
    # winner
    with np.errstate(all='ignore'):
        for r in range(H):
            for c in range(W):
                if inner[r, c] and not allnan[r, c]:
                    k = int(np.nanargmin(got[r, c]))
                    if dm["disparity_map"].data[r, c] != dmin + k:
                        bad.append('pixel (%d,%d) gets disparity %r, lowest best cost is at %d' % (r, c, float(dm["disparity_map"].data[r, c]), dmin + k)); break
    if not np.array_equal(L["im"].data, li) or not np.array_equal(R["im"].data, ri):
        bad.append('input images modified')
    return {'violates': bool(bad), 'detail': '; '.join(bad[:3])}


def nested(method='sad', ws=3, H=3, W=6, inner=(-1, 0), outer=(-2, 1), masks=True, cap=60, block=()):
    """C09: the cost volume computed for an interval equals the corresponding slice of the volume computed for a larger interval
    (same symbolic images and masks, two runs of the real chain in one symbolic execution)"""
    import xarray as xr
    from vf import symnp as S, instr
    from vf.explore import EX, explore
    from vf.hutil import Collector
    from vf.harness import mc
    import pandora.matching_cost.matching_cost as MC
    mc.install_stubs(S)
    col = Collector(cap_s=cap, block=list(block))
    info = {}
    S.MODE['exact'] = True

    def h():
        shapes = {}
        L, li, lmk = mc.make_image(xr, S, EX, 'l', H, W, mask='sym' if masks else None, shapes=shapes, vmax=63 if method == 'ssd' else 255)
        R, ri, rmk = mc.make_image(xr, S, EX, 'r', H, W, mask='sym' if masks else None, shapes=shapes, vmax=63 if method == 'ssd' else 255)
        col.shapes = shapes
        ex = {'nested': True, 'method': method, 'ws': ws, 'H': H, 'W': W, 'inner': list(inner), 'outer': list(outer), 'masks': masks}
        outs = []
        for (a, b) in (inner, outer):
            Lc = L.copy(deep=True); Rc = R.copy(deep=True)
            mc.add_disparity(xr, S, Lc, H, W, a, b)
            try:
                outs.append(mc.run_chain(S, Lc, Rc, method, ws, upto='masked')['cv'])
            except S.Unsupported:
                raise
            except Exception as e:      # noqa
                col.path_exception(e, label='p%d' % len(EX.trace), extra=ex)
                return
        ci, co = outs[0]["cost_volume"].data, outs[1]["cost_volume"].data
        off = inner[0] - outer[0]
        props = []
        for r in range(H):
            for c in range(W):
                for k in range(inner[1] - inner[0] + 1):
                    props.append(("cost-does-not-depend-on-the-other-requested-disparities[%d,%d,%d]" % (r, c, inner[0] + k),
                                  S.term_eq(ci._a[r, c, k], co._a[r, c, k + off], 'x4')))
        props.append(("disparity-coordinates", z3.BoolVal(list(outs[0].coords["disp"].data) == list(range(inner[0], inner[1] + 1))
                                                          and list(outs[1].coords["disp"].data) == list(range(outer[0], outer[1] + 1)))))
        hh = ws // 2
        possible = any(hh <= c < W - hh and hh <= c + d < W - hh for c in range(W) for d in range(inner[0], inner[1] + 1)) and H > 2 * hh
        col.check_path(props, label='p%d' % len(EX.trace), extra=ex,
                       witnesses=[("a-finite-cost-exists", z3.Or(*[S.xlift(e).tag == 0 for e in ci._a.flat]))] if possible else
                                 [("reached (the inner interval admits no computable cost on this image width)", z3.BoolVal(True))])
        info['fn'] = instr.fn_hash(MC.AbstractMatchingCost.cv_masked, MC.AbstractMatchingCost.point_interval, MC.AbstractMatchingCost.grid_estimation)
    res, stats = explore(h, max_paths=16)
    return col.result(stats, functions=info.get('fn', {}),
                      bounds={'measure': method, 'window': ws, 'image': [H, W], 'inner interval': list(inner), 'outer interval': list(outer), 'masks': masks},
                      stubs=['scipy.ndimage.binary_dilation = OR over the window, zero padded'])


def replay_nested(cex):
    import xarray as xr
    from pandora import matching_cost
    from pandora.criteria import validity_mask
    x = cex['extra']; inp = cex['inputs']; H, W = x['H'], x['W']

    def mk(name, a, b, disp):
        ds_ = xr.Dataset({"im": (["row", "col"], np.array(inp[name], np.float32).reshape(H, W))}, coords={"row": np.arange(H), "col": np.arange(W)})
        ds_.attrs = {"valid_pixels": 0, "no_data_mask": 1, "crs": None, "transform": None, "no_data_img": -9999}
        if x['masks']:
            ds_["msk"] = xr.DataArray(np.array(inp[name + 'msk'], np.int16).reshape(H, W), dims=["row", "col"])
        if disp:
            ds_.coords["band_disp"] = ["min", "max"]
            ds_["disparity"] = xr.DataArray(np.array([np.full((H, W), a), np.full((H, W), b)]), dims=["band_disp", "row", "col"]); ds_.attrs["disparity_source"] = [a, b]
        return ds_
    vols = []
    for (a, b) in (x['inner'], x['outer']):
        L = mk('l', a, b, True); R = mk('r', a, b, False)
        m = matching_cost.AbstractMatchingCost(**{"matching_cost_method": x['method'], "window_size": x['ws']})
        dmn = L["disparity"].sel(band_disp="min").data; dmx = L["disparity"].sel(band_disp="max").data
        try:
            cv = m.allocate_cost_volume(L, (dmn, dmx), None); cv = validity_mask(L, R, cv); cv = m.compute_cost_volume(L, R, cv); m.cv_masked(L, R, cv, dmn, dmx)
        except Exception as e:      # noqa
            return {'violates': True, 'detail': 'chain raised %r for interval [%d,%d]' % (e, a, b)}
        vols.append(cv["cost_volume"].data)
    off = x['inner'][0] - x['outer'][0]
    same = np.array_equal(vols[0], vols[1][:, :, off:off + vols[0].shape[2]], equal_nan=True)
    return {'violates': not same, 'detail': '' if same else 'cost volume for %s differs from the slice of the volume for %s' % (x['inner'], x['outer'])}


def locality(method='sad', ws=3, H=3, W=7, dmin=-1, dmax=1, crop=(1, 6), rows=None, zero_based=False, flip=False, masks=False,
             with_median=False, cap=120, block=()):
    """C13: processing a crop (tile) that contains a pixel's dependency cone gives the same disparity / flags / costs for that pixel as
    processing the whole image, wherever the crop starts (column coordinates kept from the whole image, or restarted at 0);
    flip=True: flipping both images vertically flips the outputs."""
    import xarray as xr
    from vf import symnp as S, instr
    from vf.explore import EX, explore
    from vf.hutil import Collector
    from vf.harness import mc
    from pandora.filter import AbstractFilter
    import pandora.criteria as CR, pandora.matching_cost.matching_cost as MC
    mc.install_stubs(S)
    col = Collector(cap_s=cap, block=list(block))
    info = {}
    S.MODE['exact'] = True
    h_ = ws // 2
    c0, c1 = crop
    r0, r1 = rows if rows else (0, H)

    def h():
        shapes = {}
        L, li, lmk = mc.make_image(xr, S, EX, 'l', H, W, mask='sym' if masks else None, shapes=shapes)
        R, ri, rmk = mc.make_image(xr, S, EX, 'r', H, W, mask='sym' if masks else None, shapes=shapes)
        col.shapes = shapes
        ex = {'locality': True, 'method': method, 'ws': ws, 'H': H, 'W': W, 'dmin': dmin, 'dmax': dmax, 'crop': list(crop), 'rows': list(rows) if rows else None,
              'zero_based': zero_based, 'flip': flip, 'masks': masks, 'with_median': with_median}

        def sub(ds_, arr, mk):
            if flip:
                a = S.SymArray(arr._a[::-1, :].copy(), 'x4'); m = S.SymArray(mk._a[::-1, :].copy(), 'i2') if mk is not None else None
                cc0, hh, ww, rr0 = 0, H, W, 0
            else:
                a = S.SymArray(arr._a[r0:r1, c0:c1].copy(), 'x4'); m = S.SymArray(mk._a[r0:r1, c0:c1].copy(), 'i2') if mk is not None else None
                cc0, hh, ww, rr0 = (0 if zero_based else c0), r1 - r0, c1 - c0, (0 if zero_based else r0)
            d = xr.Dataset({"im": (["row", "col"], a)}, coords={"row": np.arange(rr0, rr0 + hh), "col": np.arange(cc0, cc0 + ww)})
            d.attrs = dict(ds_.attrs)
            if m is not None:
                d["msk"] = xr.DataArray(m, dims=["row", "col"])
            return d, hh, ww
        outs = []
        for which in ('whole', 'part'):
            if which == 'whole':
                Lc, Rc, hh, ww = L.copy(deep=True), R.copy(deep=True), H, W
            else:
                (Lc, hh, ww), (Rc, _, _) = sub(L, li, lmk), sub(R, ri, rmk)
            mc.add_disparity(xr, S, Lc, hh, ww, dmin, dmax)
            try:
                o = mc.run_chain(S, Lc, Rc, method, ws, upto='wta')
                if with_median:
                    AbstractFilter(cfg={"filter_method": "median", "filter_size": 3}).filter_disparity(o['disp'])
            except S.Unsupported:
                raise
            except Exception as e:      # noqa
                col.path_exception(e, label=which, extra=ex); return
            outs.append(o)
        whole, part = outs
        props = []
        rad = h_ + (1 if with_median else 0)
        lo = min(dmin, 0); hi = max(dmax, 0)
        if with_median:
            lo, hi = lo, hi
        for r in range(r0, r1) if not flip else range(H):
            for c in range(c0, c1) if not flip else range(W):
                if flip:
                    pr, pc = H - 1 - r, c
                    inside = True
                else:
                    pr, pc = r - r0, c - c0
                    # the dependency cone must lie inside the crop (rows: +-radius; columns: +-radius extended by the interval)
                    inside = (r - rad >= r0 and r + rad < r1 and c - rad + lo >= c0 and c + rad + hi < c1)
                    if with_median:
                        inside = inside and (c - rad - 1 + lo >= c0 and c + rad + 1 + hi < c1)
                if not inside:
                    continue
                dw = whole['disp']["disparity_map"].data._a[r, c]; dp = part['disp']["disparity_map"].data._a[pr, pc]
                mw = whole['disp']["validity_mask"].data._a[r, c]; mp = part['disp']["validity_mask"].data._a[pr, pc]
                props.append(("same-disparity-and-flags-as-in-the-whole-image[%d,%d]" % (r, c), z3.And(S.term_eq(dw, dp, 'x4'), S.term_eq(mw, mp, 'u2'))))
                if not with_median:
                    cw = whole['cv']["cost_volume"].data; cp = part['cv']["cost_volume"].data
                    props.append(("same-costs[%d,%d]" % (r, c), z3.And(*[S.term_eq(cw._a[r, c, k], cp._a[pr, pc, k], 'x4') for k in range(dmax - dmin + 1)])))
        if not props:
            props.append(("cone-interior-pixel-exists", z3.BoolVal(False)))
        col.check_path(props, label='p%d' % len(EX.trace), extra=ex,
                       witnesses=[("a-valid-compared-pixel-exists", z3.Or(*[(S.lift(whole['disp']["validity_mask"].data._a[r, c], 'u2') & 0b1111000011) == 0
                                                                            for r in range(h_, H - h_) for c in range(h_, W - h_)]))])
        info['fn'] = instr.fn_hash(CR.validity_mask, CR.allocate_left_mask, CR.allocate_right_mask, MC.AbstractMatchingCost.grid_estimation, MC.AbstractMatchingCost.cv_masked)
    res, stats = explore(h, max_paths=16)
    return col.result(stats, functions=info.get('fn', {}),
                      bounds={'pipeline': '%s(window %d) -> wta%s' % (method, ws, ' -> median 3' if with_median else ''), 'image': [H, W], 'interval': [dmin, dmax],
                              'crop columns': list(crop), 'crop rows': list(rows) if rows else 'all', 'crop coordinates': '0-based' if zero_based else 'kept', 'vertical flip': flip, 'masks': masks},
                      stubs=['scipy.ndimage.binary_dilation = OR over the window, zero padded'])


def replay_locality(cex):
    import xarray as xr
    from pandora import matching_cost, disparity
    from pandora.criteria import validity_mask
    from pandora.filter import AbstractFilter
    x = cex['extra']; inp = cex['inputs']; H, W, ws = x['H'], x['W'], x['ws']
    c0, c1 = x['crop']; r0, r1 = x['rows'] if x['rows'] else (0, H)
    h_ = ws // 2

    def run(li, ri, lm, rm, rr0, cc0):
        hh, ww = li.shape

        def mk(im, m):
            d = xr.Dataset({"im": (["row", "col"], im.copy())}, coords={"row": np.arange(rr0, rr0 + hh), "col": np.arange(cc0, cc0 + ww)})
            d.attrs = {"valid_pixels": 0, "no_data_mask": 1, "crs": None, "transform": None, "no_data_img": -9999}
            if m is not None:
                d["msk"] = xr.DataArray(m.copy(), dims=["row", "col"])
            return d
        L, R = mk(li, lm), mk(ri, rm)
        L.coords["band_disp"] = ["min", "max"]
        L["disparity"] = xr.DataArray(np.array([np.full((hh, ww), x['dmin']), np.full((hh, ww), x['dmax'])]), dims=["band_disp", "row", "col"]); L.attrs["disparity_source"] = [x['dmin'], x['dmax']]
        m = matching_cost.AbstractMatchingCost(**{"matching_cost_method": x['method'], "window_size": ws})
        a = L["disparity"].sel(band_disp="min").data; b = L["disparity"].sel(band_disp="max").data
        cv = m.allocate_cost_volume(L, (a, b), None); cv = validity_mask(L, R, cv); cv = m.compute_cost_volume(L, R, cv); m.cv_masked(L, R, cv, a, b)
        dm = disparity.AbstractDisparity(**{"disparity_method": "wta", "invalid_disparity": -9999}).to_disp(cv, L, R)
        if x['with_median']:
            AbstractFilter(cfg={"filter_method": "median", "filter_size": 3}).filter_disparity(dm)
        return dm
    li = np.array(inp['l'], np.float32).reshape(H, W); ri = np.array(inp['r'], np.float32).reshape(H, W)
    lm = np.array(inp['lmsk'], np.int16).reshape(H, W) if x['masks'] else None; rm = np.array(inp['rmsk'], np.int16).reshape(H, W) if x['masks'] else None
    try:
        whole = run(li, ri, lm, rm, 0, 0)
        if x['flip']:
            part = run(li[::-1], ri[::-1], lm[::-1] if lm is not None else None, rm[::-1] if rm is not None else None, 0, 0)
        else:
            part = run(li[r0:r1, c0:c1], ri[r0:r1, c0:c1], lm[r0:r1, c0:c1] if lm is not None else None, rm[r0:r1, c0:c1] if rm is not None else None,
                       0 if x['zero_based'] else r0, 0 if x['zero_based'] else c0)
    except Exception as e:      # noqa
        return {'violates': True, 'detail': 'chain raised %r' % (e,)}
    rad = h_ + (1 if x['with_median'] else 0); lo = min(x['dmin'], 0); hi = max(x['dmax'], 0)
    bad = []
    for r in range(H):
        for c in range(W):
            if x['flip']:
                pr, pc = H - 1 - r, c
            else:
                if not (r - rad >= r0 and r + rad < r1 and c - rad + lo >= c0 and c + rad + hi < c1):
                    continue
                if x['with_median'] and not (c - rad - 1 + lo >= c0 and c + rad + 1 + hi < c1):
                    continue
                pr, pc = r - r0, c - c0
            a, b = whole["disparity_map"].data[r, c], part["disparity_map"].data[pr, pc]
            ma, mb = whole["validity_mask"].data[r, c], part["validity_mask"].data[pr, pc]
            if not (a == b or (np.isnan(a) and np.isnan(b))) or ma != mb:
                bad.append('pixel (%d,%d): whole image gives %r/%d, the %s gives %r/%d' % (r, c, float(a), ma, 'flipped run' if x['flip'] else 'crop', float(b), mb))
    return {'violates': bool(bad), 'detail': '; '.join(bad[:3])}
