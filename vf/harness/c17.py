"""C17: malformed inputs are refused up front, well-formed inputs never are.

Dataset checking: structure variants are a finite concrete list, dataset *contents* (image NaN pattern, disparity grids)
are symbolic.  Input-section checking: stub rasterio readers with symbolic sizes / band counts / grids, symbolic integer
disparities and nodata."""
import copy
import numpy as np, z3

ATTRS = {"no_data_img": -9999, "valid_pixels": 0, "no_data_mask": 1, "crs": None, "transform": None}

# structure variants of one dataset: name -> (mutator description, well_formed?)
VARIANTS = ['ok', 'ok-multiband', 'ok-with-msk', 'no-im', 'band-names-int', 'band-names-mixed', 'band-names-none', 'band-names-object-str', 'msk-other-shape', 'classif-other-shape',
            'missing-attr-crs', 'missing-attr-no_data_img', 'missing-attr-valid_pixels', 'missing-attr-no_data_mask', 'missing-attr-transform',
            'disp-without-band_disp', 'disp-bands-renamed']


def _make(xr, S, name, rows, cols, variant, with_disp, syms):
    bands = 2 if variant in ('ok-multiband', 'band-names-int', 'band-names-mixed', 'band-names-none', 'band-names-object-str') else 0
    shape = (bands, rows, cols) if bands else (rows, cols)
    im = S.fresh_array(name + 'im', shape, 'f4'); syms[name + 'im'] = (shape, 'f4')
    dims = (["band_im", "row", "col"] if bands else ["row", "col"])
    coords = {"row": np.arange(rows), "col": np.arange(cols)}
    if bands:
        coords["band_im"] = {'band-names-int': [1, 2], 'band-names-mixed': np.array(["r", 1], dtype=object), 'band-names-none': np.array([None, None], dtype=object),
                             'band-names-object-str': np.array(["r", "g"], dtype=object)}.get(variant, ["r", "g"])
    ds = xr.Dataset({"im": (dims, im)}, coords=coords)
    ds.attrs = dict(ATTRS)
    well = True
    grids = None
    if with_disp:
        g = S.fresh_array(name + 'disp', (2, rows, cols), 'f4'); syms[name + 'disp'] = ((2, rows, cols), 'f4')
        grids = g
        if variant == 'disp-without-band_disp':
            ds["disparity"] = xr.DataArray(g, dims=["bd", "row", "col"]); well = False
        else:
            names = ["min", "max"] if variant != 'disp-bands-renamed' else ["lo", "hi"]
            ds.coords["band_disp"] = names
            ds["disparity"] = xr.DataArray(g, dims=["band_disp", "row", "col"])
            well = well and variant != 'disp-bands-renamed'
    if variant == 'ok-with-msk':
        ds["msk"] = xr.DataArray(np.zeros((rows, cols), np.int16), dims=["row", "col"])
    if variant == 'no-im':
        ds = ds.drop_vars("im"); well = False
    if variant in ('band-names-int', 'band-names-mixed', 'band-names-none'):
        well = False
    if variant == 'msk-other-shape':
        ds["msk"] = xr.DataArray(np.zeros((rows + 1, cols), np.int16), dims=["row2", "col"]); well = False
    if variant == 'classif-other-shape':
        ds["classif"] = xr.DataArray(np.zeros((2, rows, cols + 1), np.int16), dims=["band_classif", "row", "col2"]); well = False
    if variant.startswith('missing-attr-'):
        del ds.attrs[variant[len('missing-attr-'):]]; well = False
    return ds, im, grids, well


def datasets(lvar='ok', rvar='ok', rows=2, cols=2, drows=0, dcols=0, left_disp=True, right_disp=False, cap=30, block=()):
    """check_datasets on a pair: left variant, right variant, right size = left size + (drows, dcols)"""
    import xarray as xr
    from vf import symnp as S, instr
    from vf.explore import EX, explore
    from vf.hutil import Collector
    import pandora.check_configuration as CC
    col = Collector(cap_s=cap)
    info = {}

    def h():
        syms = {}
        L, lim, lg, lwell = _make(xr, S, 'l', rows, cols, lvar, left_disp, syms)
        R, rim, rg, rwell = _make(xr, S, 'r', rows + drows, cols + dcols, rvar, right_disp, syms)
        col.shapes = syms
        ex = {'lvar': lvar, 'rvar': rvar, 'rows': rows, 'cols': cols, 'drows': drows, 'dcols': dcols, 'left_disp': left_disp, 'right_disp': right_disp}
        try:
            CC.check_datasets(L, R)
            accepted = True
        except S.Unsupported:
            raise
        except Exception as e:      # noqa
            accepted = False
        struct_ok = lwell and rwell and left_disp and drows == 0 and dcols == 0
        conds = [z3.BoolVal(bool(struct_ok))]
        for im in (lim, rim):
            conds.append(z3.Not(z3.And(*[z3.fpIsNaN(e.t) for e in im._a.flat])))          # not entirely NaN
        for g, var in ((lg, lvar), (rg, rvar)):
            if g is not None and var not in ('disp-without-band_disp', 'disp-bands-renamed'):
                conds.append(z3.And(*[z3.Not(z3.fpGT(g._a[0, r, c].t, g._a[1, r, c].t)) for r in range(g.shape[1]) for c in range(g.shape[2])]))
        well_formed = z3.And(*conds)
        col.check_path([("datasets-accepted-iff-well-formed", well_formed if accepted else z3.Not(well_formed))],
                       label=('acc' if accepted else 'rej') + str(len(EX.trace)), extra=ex,
                       witnesses=[("accepted" if struct_ok else "refused", z3.BoolVal(accepted == bool(struct_ok) or not struct_ok))])
        info['fn'] = instr.fn_hash(CC.check_datasets, CC.check_dataset, CC.check_disparities_from_dataset, CC.check_band_names, CC.check_shape, CC.check_attributes)
    res, stats = explore(h, max_paths=400)
    return col.result(stats, functions=info.get('fn', {}),
                      bounds={'left': lvar, 'right': rvar, 'size': [rows, cols], 'right_size_delta': [drows, dcols], 'contents': 'any float32 incl. NaN'})


def replay(cex):
    x = cex['extra']
    if x.get('input'):
        return replay_input(cex)
    import xarray as xr
    import pandora.check_configuration as CC

    class NS:      # minimal stand-in for the engine module: concrete arrays
        @staticmethod
        def fresh_array(name, shape, kind):
            v = cex['inputs'].get(name)
            return np.array(v, np.float32).reshape(shape) if v is not None else np.zeros(shape, np.float32)
    syms = {}
    L, lim, lg, lwell = _make(xr, NS, 'l', x['rows'], x['cols'], x['lvar'], x['left_disp'], syms)
    R, rim, rg, rwell = _make(xr, NS, 'r', x['rows'] + x['drows'], x['cols'] + x['dcols'], x['rvar'], x['right_disp'], syms)
    try:
        CC.check_datasets(L, R); acc = True
    except Exception as e:      # noqa
        acc = False; err = repr(e)
    well = lwell and rwell and x['left_disp'] and x['drows'] == 0 and x['dcols'] == 0
    well = well and not np.isnan(lim).all() and not np.isnan(rim).all()
    for g, var in ((lg, x['lvar']), (rg, x['rvar'])):
        if g is not None and var not in ('disp-without-band_disp', 'disp-bands-renamed'):
            well = well and not (g[0] > g[1]).any()
    bad = [] if acc == bool(well) else ['dataset pair (%s / %s, sizes %dx%d vs %dx%d) is %s but it is %s' % (
        x['lvar'], x['rvar'], x['rows'], x['cols'], x['rows'] + x['drows'], x['cols'] + x['dcols'], 'accepted' if acc else 'refused (%s)' % err[:80],
        'well-formed' if well else 'malformed')]
    return {'violates': bool(bad), 'detail': '; '.join(bad)}


# ------------------------------------------------------------------------------------------------ input section
class Reader:
    def __init__(self, width, height, count=1, bands=None):
        self.width = width; self.height = height; self.count = count; self._bands = bands

    def read(self, i):
        return self._bands[i - 1]


class _Missing(OSError):
    pass


def _install_readers(CC, files):
    """rasterio_open of check_configuration = stub reader over `files`, restricted to the paths in the returned set `present`"""
    import logging
    logging.disable(logging.CRITICAL)
    present = set(files)

    def ro(p, *a, **k):
        if p not in present or p not in files:
            raise _Missing('cannot open %r' % (p,))
        return files[p]
    CC.rasterio_open = ro
    return present


def _concrete_section(cfg):
    """the same input section with concrete well-formed scalar values (paths kept)"""
    out = {"input": {}}
    for side, d in cfg["input"].items():
        o = {}
        for k, v in d.items():
            if isinstance(v, str) or v is None:
                o[k] = v
            elif k == 'disp':
                o[k] = [-1, 1]
            elif k == 'nodata':
                o[k] = -9999
        out["input"][side] = o
    return out


def _history_unreadable(CC, cfg, files, present):
    """check the section once while none of its files can be opened: it must be refused; afterwards the files exist"""
    present.clear()
    try:
        CC.check_input_section(_concrete_section(cfg)); refused = False
    except Exception:      # noqa
        refused = True
    present.update(files)
    return refused


def input_section(mode='int', aux='none', cap=30, block=()):
    """check_input_section with stub readers.  mode: 'int' (left [min,max] symbolic ints, right none), 'grid' (left grid, right none),
    'grids' (left and right grids), 'int-right-int' / 'int-right-grid' (malformed), 'grid-count' (wrong band count).
    aux: which auxiliary rasters are given ('none', 'mask', 'classif', 'segm', 'all') -- their sizes are symbolic"""
    from vf import symnp as S, symscalar as SS, instr
    from vf.explore import EX, explore
    from vf.hutil import Collector
    import pandora.check_configuration as CC
    import vf.harness.c05 as _c05        # noqa: json_checker stubs
    col = Collector(cap_s=cap)
    info = {}
    B = 4096

    def h():
        files = {}
        W = SS.fresh_int('W', 1, B); H = SS.fresh_int('H', 1, B)
        W2 = SS.fresh_int('W2', 1, B); H2 = SS.fresh_int('H2', 1, B)
        files['left.tif'] = Reader(W, H); files['right.tif'] = Reader(W2, H2)
        cfg = {"input": {"left": {"img": 'left.tif'}, "right": {"img": 'right.tif'}}}
        conds = [W.t == W2.t, H.t == H2.t]
        ex = {'input': True, 'mode': mode, 'aux': aux}
        col.shapes = {}
        if mode in ('int', 'int-right-int', 'int-right-grid'):
            dmin = SS.fresh_int('dmin', -B, B); dmax = SS.fresh_int('dmax', -B, B)
            cfg["input"]["left"]["disp"] = [dmin, dmax]
            conds.append(dmin.t <= dmax.t)
            if mode == 'int-right-int':
                cfg["input"]["right"]["disp"] = [-4, 4]; conds.append(z3.BoolVal(False))
            if mode == 'int-right-grid':
                files['rgrid.tif'] = Reader(W2, H2, 2, [np.zeros((1, 1)), np.ones((1, 1))])
                cfg["input"]["right"]["disp"] = 'rgrid.tif'; conds.append(z3.BoolVal(False))
        else:
            gw = SS.fresh_int('GW', 1, B); gh = SS.fresh_int('GH', 1, B)
            if mode == 'grid-u8':
                # a grid file stored as unsigned 8-bit integers (rasterio returns the file's dtype): arithmetic on it wraps around
                g = S.fresh_array('grid', (2, 2, 2), 'u1'); col.shapes['grid'] = ((2, 2, 2), 'u1')
                order = z3.And(*[z3.ULE(g._a[0, r, c].t, g._a[1, r, c].t) for r in range(2) for c in range(2)])
            else:
                g = S.fresh_array('grid', (2, 2, 2), 'f4'); col.shapes['grid'] = ((2, 2, 2), 'f4')
                order = z3.And(*[z3.Not(z3.fpGT(g._a[0, r, c].t, g._a[1, r, c].t)) for r in range(2) for c in range(2)])
            cnt = 2 if mode != 'grid-count' else SS.fresh_int('count', 1, 4)
            files['grid.tif'] = Reader(gw, gh, cnt, [g[0], g[1]])
            cfg["input"]["left"]["disp"] = 'grid.tif'
            conds += [gw.t == W.t, gh.t == H.t, order]
            if mode == 'grid-count':
                conds.append(cnt.t == 2)
            if mode == 'grids':
                gw2 = SS.fresh_int('GW2', 1, B); gh2 = SS.fresh_int('GH2', 1, B)
                g2 = S.fresh_array('rgrid', (2, 2, 2), 'f4'); col.shapes['rgrid'] = ((2, 2, 2), 'f4')
                files['rgrid.tif'] = Reader(gw2, gh2, 2, [g2[0], g2[1]])
                cfg["input"]["right"]["disp"] = 'rgrid.tif'
                conds += [gw2.t == W2.t, gh2.t == H2.t, z3.And(*[z3.Not(z3.fpGT(g2._a[0, r, c].t, g2._a[1, r, c].t)) for r in range(2) for c in range(2)])]
        # nodata: integer or NaN accepted
        nd = SS.fresh_int('nodata', -B, B); cfg["input"]["left"]["nodata"] = nd
        ndr = SS.fresh_float('nodata_right'); cfg["input"]["right"]["nodata"] = ndr
        conds.append(z3.fpIsNaN(ndr.t))                       # a float nodata is accepted only when it is NaN
        for kind in ('mask', 'classif', 'segm'):
            if aux in (kind, 'all'):
                for side, (w0, h0) in (('left', (W, H)), ('right', (W2, H2))):
                    aw = SS.fresh_int('%s_%s_w' % (side, kind), 1, B); ah = SS.fresh_int('%s_%s_h' % (side, kind), 1, B)
                    files['%s_%s.tif' % (side, kind)] = Reader(aw, ah)
                    cfg["input"][side][kind] = '%s_%s.tif' % (side, kind)
                    conds += [aw.t == w0.t, ah.t == h0.t]
        # only the reader is a stub: the real rasterio_can_open(_mandatory) predicates run (they call the module's rasterio_open)
        present = _install_readers(CC, files)
        # history: the same paths were checked before in this process while they could not be opened (refused), then the files appear
        hist = _history_unreadable(CC, cfg, files, present)
        snap = copy.deepcopy({k: {kk: (vv if isinstance(vv, (str, type(None))) else '<v>') for kk, vv in v.items()} for k, v in cfg["input"].items()})
        try:
            out = CC.check_input_section(cfg)
            accepted = True
        except S.Unsupported:
            raise
        except Exception as e:      # noqa
            accepted = False
        well = z3.And(*conds)
        props = [("input-section-accepted-iff-documented-form", well if accepted else z3.Not(well)),
                 ("unreadable-paths-refused-before-the-files-exist", z3.BoolVal(hist))]
        # ... and once the files are gone again the same section is refused
        present.clear()
        try:
            CC.check_input_section(_concrete_section(cfg)); gone_ok = False
        except S.Unsupported:
            raise
        except Exception:      # noqa
            gone_ok = True
        present.update(files)
        props.append(("unreadable-paths-refused-after-the-files-are-gone", z3.BoolVal(gone_ok)))
        if accepted:
            o = out["input"]
            props.append(("defaults-completed-and-values-kept", z3.BoolVal(
                o["left"]["nodata"] is nd and o["right"]["nodata"] is ndr and o["left"].get("mask", 0) == cfg["input"]["left"].get("mask")
                and "disp" in o["right"] and o["left"]["img"] == 'left.tif')))
        col.check_path(props, label=('acc' if accepted else 'rej') + str(len(EX.trace)), extra=ex,
                       witnesses=[("an-accepted-input-exists", z3.BoolVal(accepted))] if mode not in ('int-right-int', 'int-right-grid') else [])
        info['fn'] = instr.fn_hash(CC.check_input_section, CC.check_images, CC.check_image_dimension, CC.check_disparities_from_input, CC.rasterio_can_open_mandatory, CC.rasterio_can_open)
    res, stats = explore(h, max_paths=3000)
    return col.result(stats, functions=info.get('fn', {}),
                      bounds={'mode': mode, 'auxiliary rasters': aux, 'sizes': '1..4096 symbolic', 'integers': '|n| <= 4096', 'grids': '2x2 symbolic float32'},
                      stubs=['rasterio_open = stub reader with symbolic width/height/count and symbolic grid bands, raising for paths that do not exist ("readable by rasterio" is outside the claim); the real rasterio_can_open(_mandatory) predicates run; history: every section is checked once before its files exist and once after they are gone'])


def replay_input(cex):
    import pandora.check_configuration as CC
    x = cex['extra']; v = cex['inputs']
    g = lambda k, d: v.get(k, d)
    files = {'left.tif': Reader(g('W', 4), g('H', 4)), 'right.tif': Reader(g('W2', 4), g('H2', 4))}
    cfg = {"input": {"left": {"img": 'left.tif'}, "right": {"img": 'right.tif'}}}
    well = g('W', 4) == g('W2', 4) and g('H', 4) == g('H2', 4)
    mode = x['mode']
    if mode in ('int', 'int-right-int', 'int-right-grid'):
        cfg["input"]["left"]["disp"] = [g('dmin', -1), g('dmax', 1)]
        well = well and g('dmin', -1) <= g('dmax', 1)
        if mode == 'int-right-int':
            cfg["input"]["right"]["disp"] = [-4, 4]; well = False
        if mode == 'int-right-grid':
            files['rgrid.tif'] = Reader(g('W2', 4), g('H2', 4), 2, [np.zeros((1, 1)), np.ones((1, 1))]); cfg["input"]["right"]["disp"] = 'rgrid.tif'; well = False
    else:
        gr = np.array(g('grid', np.zeros((2, 2, 2))), np.float32 if mode != 'grid-u8' else np.uint8).reshape(2, 2, 2)
        cnt = 2 if mode != 'grid-count' else g('count', 2)
        files['grid.tif'] = Reader(g('GW', 4), g('GH', 4), cnt, [gr[0], gr[1]]); cfg["input"]["left"]["disp"] = 'grid.tif'
        well = well and g('GW', 4) == g('W', 4) and g('GH', 4) == g('H', 4) and not (gr[0] > gr[1]).any() and cnt == 2
        if mode == 'grids':
            gr2 = np.array(g('rgrid', np.zeros((2, 2, 2))), np.float32).reshape(2, 2, 2)
            files['rgrid.tif'] = Reader(g('GW2', 4), g('GH2', 4), 2, [gr2[0], gr2[1]]); cfg["input"]["right"]["disp"] = 'rgrid.tif'
            well = well and g('GW2', 4) == g('W2', 4) and g('GH2', 4) == g('H2', 4) and not (gr2[0] > gr2[1]).any()
    cfg["input"]["left"]["nodata"] = g('nodata', -9999)
    ndr = g('nodata_right', float('nan')); cfg["input"]["right"]["nodata"] = ndr
    well = well and ndr != ndr
    for kind in ('mask', 'classif', 'segm'):
        if x['aux'] in (kind, 'all'):
            for side, (w0, h0) in (('left', (g('W', 4), g('H', 4))), ('right', (g('W2', 4), g('H2', 4)))):
                aw, ah = g('%s_%s_w' % (side, kind), w0), g('%s_%s_h' % (side, kind), h0)
                files['%s_%s.tif' % (side, kind)] = Reader(aw, ah); cfg["input"][side][kind] = '%s_%s.tif' % (side, kind)
                well = well and aw == w0 and ah == h0
    present = _install_readers(CC, files)
    hist = _history_unreadable(CC, cfg, files, present)
    if cex.get('name', '').startswith('unreadable-paths-refused-before'):
        return {'violates': not hist, 'detail': 'an input section whose files cannot be opened is %s' % ('refused' if hist else 'accepted')}
    if cex.get('name', '').startswith('unreadable-paths-refused-after'):
        present.clear()
        try:
            CC.check_input_section(_concrete_section(cfg)); gone = False
        except Exception:      # noqa
            gone = True
        return {'violates': not gone, 'detail': 'an input section whose files were removed is %s' % ('refused' if gone else 'accepted')}
    try:
        CC.check_input_section(copy.deepcopy(cfg)); acc = True
    except Exception as e:      # noqa
        acc = False; err = repr(e)
    bad = [] if acc == bool(well) else ['input section %s is %s but it is %s' % ({k: {kk: vv for kk, vv in d.items()} for k, d in cfg["input"].items()},
                                                                           'accepted' if acc else 'refused (%s)' % err[:100], 'well-formed' if well else 'malformed')]
    return {'violates': bool(bad), 'detail': '; '.join(bad)[:600]}
