"""Shared symbolic run of the real matching-cost chain (allocate_cost_volume -> validity_mask -> compute_cost_volume -> cv_masked
[-> to_disp]) on symbolic images and masks, exact value domain.  Used by C02, C04, C09, C13, C08-value."""
import numpy as np, z3


def dilation_model(S):
    """scipy.ndimage.binary_dilation(mask, structure=ones((w,w)), iterations=1): OR over the window, zero padded (documented
    contract; differential-tested against scipy on random masks by the self-test)"""
    def binary_dilation(a, structure=None, iterations=1, **kw):
        if not isinstance(a, S.SymArray):
            a = S.as_symarray(np.asarray(a))
        if a.is_concrete():
            from scipy.ndimage import binary_dilation as bd
            return S.SymArray(bd(a.to_numpy().astype(bool), structure=structure, iterations=iterations), 'b')
        wr, wc = structure.shape
        hr, hc = wr // 2, wc // 2
        R, C = a.shape
        out = np.empty((R, C), dtype=object)
        for r in range(R):
            for c in range(C):
                acc = False
                for dr in range(-hr, wr - hr):
                    for dc in range(-hc, wc - hc):
                        rr, cc = r - dr, c - dc          # scipy mirrors the structure (symmetric here)
                        if 0 <= rr < R and 0 <= cc < C:
                            e = a._a[rr, cc]
                            acc = S.sor(acc, e if S.kind_of(e) == 'b' else (e != 0))
                out[r, c] = acc
        return S.SymArray(out, 'b')
    return binary_dilation


def zoom_linear_model(S):
    """scipy.ndimage.zoom(a, (1, z), order=1) is a linear map of each row: its weight matrix is read off the REAL zoom applied to the
    unit vectors (on every run) and applied to the symbolic samples; the weights must be exact multiples of 1/64 (true for the
    power-of-two sub-pixel precisions of the claim), otherwise the model refuses"""
    from scipy.ndimage import zoom as real_zoom
    from fractions import Fraction

    def zoom(a, factors, order=1, **kw):
        if not isinstance(a, S.SymArray):
            return real_zoom(a, factors, order=order, **kw)
        if a.is_concrete():
            return S.SymArray(real_zoom(a.to_numpy(), factors, order=order, **kw), a.kind)
        if order != 1 or len(a.shape) != 2 or factors[0] != 1:
            raise S.Unsupported('zoom%r order %r on symbolic data' % (factors, order))
        H, W = a.shape
        Wm = real_zoom(np.eye(W, dtype=np.float64), (1, factors[1]), order=1, **kw)      # row k: response to the unit vector e_k
        nout = Wm.shape[1]
        out = np.empty((H, nout), dtype=object)
        fr = {}
        for k in range(W):
            for j in range(nout):
                w = float(Wm[k, j])
                if w != 0.0:
                    f = Fraction(w).limit_denominator(64)
                    if abs(float(f) - w) > 1e-12:
                        raise S.Unsupported('zoom weight %r is not a multiple of 1/64' % w)
                    fr[(k, j)] = f
        for r in range(H):
            for j in range(nout):
                acc = None
                for k in range(W):
                    f = fr.get((k, j))
                    if f is None:
                        continue
                    term = a._a[r, k] if f == 1 else a._a[r, k] * np.float32(float(f))
                    acc = term if acc is None else acc + term
                out[r, j] = acc if acc is not None else np.float32(0.0)
        return S.SymArray(out, a.kind)
    return zoom


def install_stubs(S):
    import pandora.criteria as CR, pandora.matching_cost.matching_cost as MC
    bd = dilation_model(S)
    CR.binary_dilation = bd; MC.binary_dilation = bd
    import pandora.img_tools as IT
    IT.zoom = zoom_linear_model(S)


def make_image(xr, S, EX, name, H, W, col0=0, mask=None, vmax=255, bands=None, shapes=None, codes=(0, 1)):
    """symbolic integer-valued image in [0, vmax]; mask: None | 'sym' (values 0 valid, 1 nodata, 2/3 invalid)"""
    shp = (H, W) if not bands else (len(bands), H, W)
    im = S.fresh_array(name, shp, 'x4')
    if shapes is not None:
        shapes[name] = (shp, 'x4')
    for e in im._a.flat:
        EX.assume(z3.And(e.t.val >= 0, e.t.val <= vmax))
    dims = ["row", "col"] if not bands else ["band_im", "row", "col"]
    coords = {"row": np.arange(H), "col": np.arange(col0, col0 + W)}
    if bands:
        coords["band_im"] = list(bands)
    ds = xr.Dataset({"im": (dims, im)}, coords=coords)
    ds.attrs = {"valid_pixels": codes[0], "no_data_mask": codes[1], "crs": None, "transform": None, "no_data_img": -9999}
    mk = None
    if mask == 'sym':
        mk = S.fresh_array(name + 'msk', (H, W), 'i2')
        if shapes is not None:
            shapes[name + 'msk'] = ((H, W), 'i2')
        for e in mk._a.flat:
            EX.assume(z3.And(e.t >= 0, e.t <= 3))
        ds["msk"] = xr.DataArray(mk, dims=["row", "col"])
    return ds, im, mk


def add_disparity(xr, S, ds, H, W, dmin, dmax, grids=None):
    ds.coords["band_disp"] = ["min", "max"]
    if grids is None:
        g = np.array([np.full((H, W), dmin), np.full((H, W), dmax)])
        ds["disparity"] = xr.DataArray(g, dims=["band_disp", "row", "col"])
        ds.attrs["disparity_source"] = [dmin, dmax]
    else:
        ds["disparity"] = xr.DataArray(grids, dims=["band_disp", "row", "col"])
        ds.attrs["disparity_source"] = "grid.tif"
    return ds


def run_chain(S, L, R, method='sad', ws=3, subpix=1, band=None, upto='masked', invalid=-9999):
    """the real chain as the state machine calls it"""
    from pandora import matching_cost, disparity
    from pandora.criteria import validity_mask
    mc = matching_cost.AbstractMatchingCost(**{"matching_cost_method": method, "window_size": ws, "subpix": subpix, "band": band})
    dmin = L["disparity"].sel(band_disp="min").data; dmax = L["disparity"].sel(band_disp="max").data
    cv = mc.allocate_cost_volume(L, (dmin, dmax), None)
    cv = validity_mask(L, R, cv)
    cv = mc.compute_cost_volume(L, R, cv)
    mc.cv_masked(L, R, cv, dmin, dmax)
    out = {'cv': cv, 'mc': mc}
    if upto == 'wta':
        w = disparity.AbstractDisparity(**{"disparity_method": "wta", "invalid_disparity": invalid})
        out['disp'] = w.to_disp(cv, L, R)
    return out
