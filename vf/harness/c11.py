"""C11: cross-based cost aggregation.  cross_support on symbolic (median-filtered, inf-masked) images, and the whole
cost_volume_aggregation (cbca_step_1..4, computes_cross_supports) on symbolic images, masks and cost volumes."""
import numpy as np, z3


def ref_arms(H, W, fin, close, len_arms):
    """statement-derived arms: for each pixel [left, right, up, down]: consecutive neighbours (at most len_arms - 1) that are finite and
    whose intensity differs by < cbca_intensity; at least one pixel when the immediate neighbour exists and is finite.
    fin(r, c) -> bool, close(r, c, r2, c2) -> bool  (both may fork)"""
    arms = np.zeros((H, W, 4), dtype=int)
    for r in range(H):
        for c in range(W):
            if not fin(r, c):
                continue
            for k, (dr, dc) in enumerate(((0, -1), (0, 1), (-1, 0), (1, 0))):
                n = 0
                for step in range(1, max(len_arms, 1)):
                    rr, cc = r + dr * step, c + dc * step
                    if not (0 <= rr < H and 0 <= cc < W):
                        break
                    if not fin(rr, cc) or not close(r, c, rr, cc):
                        break
                    n += 1
                r1, c1 = r + dr, c + dc
                if n == 0 and 0 <= r1 < H and 0 <= c1 < W and fin(r1, c1):
                    n = 1            # one-pixel minimum over a valid neighbour
                arms[r, c, k] = n
    return arms


def arms(H=1, W=3, len_arms=2, intensity=5, cap=60, block=()):
    """cross_support alone: symbolic image (finite integers or +inf for masked pixels)"""
    from vf import symnp as S, instr
    from vf.explore import EX, explore
    from vf.hutil import Collector
    import pandora.aggregation.cbca as CB
    col = Collector(cap_s=cap, block=list(block))
    info = {}
    S.MODE['exact'] = True
    instr.FLAGS['fork_minmax'] = True

    def h():
        im = S.fresh_array('im', (H, W), 'x4', tagged=True, tags=(0, 2))
        col.shapes = {'im': ((H, W), 'x4')}
        for e in im._a.flat:
            EX.assume(z3.And(e.t.val >= 0, e.t.val <= 255))
        ex = {'arms_harness': True, 'H': H, 'W': W, 'len_arms': len_arms, 'intensity': intensity}
        try:
            cross = CB.cross_support(im, len_arms, intensity)
        except S.Unsupported:
            raise
        except Exception as e:      # noqa
            col.path_exception(e, label='p%d' % len(EX.trace), extra=ex); return
        fin = lambda r, c: bool(S.isfinite(im._a[r, c]))
        close = lambda r, c, r2, c2: bool(S.sabs(im._a[r, c] - im._a[r2, c2]) < intensity)
        ref = ref_arms(H, W, fin, close, len_arms)
        props = []
        for r in range(H):
            for c in range(W):
                for k, nm in enumerate(('left', 'right', 'up', 'down')):
                    got = cross._a[r, c, k]
                    gt = S.lift(got, 'i2') if isinstance(got, S.Sym) else z3.BitVecVal(int(got), 16)
                    props.append(("arm-%s[%d,%d]" % (nm, r, c), gt == int(ref[r, c, k])))
                # arms never leave the image (assumption of the integral-image steps)
        col.check_path(props, label='p%d' % len(EX.trace), extra=ex, witnesses=[("a-masked-pixel-exists", z3.Or(*[e.t.tag == 2 for e in im._a.flat]))])
        info['fn'] = instr.fn_hash(CB.cross_support)
    res, stats = explore(h, max_paths=20000)
    return col.result(stats, functions=info.get('fn', {}),
                      bounds={'image': [H, W], 'cbca_distance': len_arms, 'cbca_intensity': intensity, 'samples': 'integers in [0,255] or +inf (masked)'})


def aggregate(H=3, W=3, disps=(0, 1), subpix=1, len_arms=2, offset=0, cap=120, block=(), second_call=False, prefix=(), sym_pixels=((1, 1),), seed=0, sym_calls=(0, 1)):
    """cost_volume_aggregation (cbca_step_1..4 + the plane loop + NaN restore + normalisation) on a symbolic cost volume.
    Assume-guarantee: cross_support is replaced by a stub returning ARBITRARY arms that satisfy the invariant established by the
    `arms` harness (0 <= arm <= cbca_distance, arms never leave the image); the solver enumerates the arm configurations (forks)."""
    import xarray as xr
    from vf import symnp as S, instr
    from vf.explore import EX, explore
    from vf.hutil import Collector
    from pandora import aggregation
    import pandora.aggregation.cbca as CB
    col = Collector(cap_s=cap, block=list(block))
    info = {}
    S.MODE['exact'] = True; S.REALS['div'] = True
    instr.FLAGS['fork_minmax'] = True
    ds = [float(d) for d in disps]
    Hc, Wc = H - 2 * offset, W - 2 * offset
    nshift = lambda d: int(round((d % 1) * subpix))

    def h():
        shapes = {}
        calls = []
        passed = []

        def stub_cross(image, len_arms_, intensity_):
            passed.append((int(len_arms_), float(intensity_)))
            n = len(calls)
            hh, ww = image.shape
            a = S.fresh_array('arms%d' % n, (hh, ww, 4), 'i2'); shapes['arms%d' % n] = ((hh, ww, 4), 'i2')
            conc = np.zeros((hh, ww, 4), dtype=np.int16)
            rnd = np.random.RandomState(seed * 31 + n)
            for r in range(hh):
                for c in range(ww):
                    lim = (c, ww - 1 - c, r, hh - 1 - r)
                    for k in range(4):
                        t = a._a[r, c, k].t
                        hi = min(lim[k], max(len_arms_ - 1, 1))
                        EX.assume(z3.And(t >= 0, t <= hi))
                        if (r, c) not in [tuple(p_) for p_ in sym_pixels] or (n % (1 + subpix)) not in sym_calls or (second_call and n < 1 + subpix):
                            # arms of the other pixels: concrete pseudo-random values inside the invariant (changes with VERIF_SEED)
                            v = int(rnd.randint(0, hi + 1)); EX.assume(t == v); conc[r, c, k] = v
                            continue
                        v = 0
                        for cand in range(hi, 0, -1):        # the solver enumerates the arm value (fork)
                            if bool(a._a[r, c, k] == cand):
                                v = cand; break
                        conc[r, c, k] = v
            calls.append(conc)
            return S.SymArray(conc.copy(), 'i2')
        CB.cross_support = stub_cross
        rng = np.random.RandomState(1)
        mkimg = lambda: xr.Dataset({"im": (["row", "col"], rng.randint(0, 50, (H, W)).astype(np.float32))}, coords={"row": np.arange(H), "col": np.arange(W)},
                                   attrs={"valid_pixels": 0, "no_data_mask": 1, "crs": None, "transform": None, "no_data_img": -9999})
        L, R = mkimg(), mkimg()
        D = len(ds)
        cvd = S.fresh_array('cv', (H, W, D), 'x4', tagged=True, tags=(0, 1)); shapes['cv'] = ((H, W, D), 'x4')
        for e in cvd._a.flat:
            EX.assume(z3.And(e.t.val >= 0, e.t.val <= 1000))
        wr = lambda d: Wc if nshift(d) == 0 else Wc - 1       # width of the (cropped) right cross support used for that plane
        for r in range(H):
            for c in range(W):
                for k, d in enumerate(ds):
                    cc = c - offset
                    inside = offset <= r < H - offset and offset <= c < W - offset and 0 <= cc + d and int(cc + d) < wr(d)
                    if not inside:
                        EX.assume(cvd._a[r, c, k].t.tag == 1)     # C02 postcondition: not computable there
        col.shapes = shapes
        cv = xr.Dataset({"cost_volume": (["row", "col", "disp"], cvd)}, coords={"row": np.arange(H), "col": np.arange(W), "disp": ds})
        cv.attrs = {"offset_row_col": offset, "subpixel": subpix, "cmax": 10, "type_measure": "min", "window_size": 2 * offset + 1}
        cv0 = cvd.copy()
        ag = aggregation.AbstractAggregation(**{"aggregation_method": "cbca", "cbca_intensity": 5.0, "cbca_distance": len_arms})
        ex = {'aggregate': True, 'H': H, 'W': W, 'disps': list(ds), 'subpix': subpix, 'len_arms': len_arms, 'offset': offset, 'second_call': second_call}
        first = 0
        try:
            if second_call:
                cv2 = xr.Dataset({"cost_volume": (["row", "col", "disp"], S.SymArray(np.ones((H, W, D), np.float32), 'x4'))},
                                 coords={"row": np.arange(H), "col": np.arange(W), "disp": ds}); cv2.attrs = dict(cv.attrs)
                ag.cost_volume_aggregation(mkimg(), mkimg(), cv2)
                first = len(calls)
            ag.cost_volume_aggregation(L, R, cv)
        except S.Unsupported:
            raise
        except Exception as e:      # noqa
            col.path_exception(e, label='p%d' % len(EX.trace), extra=ex); return
        out = cv["cost_volume"].data
        if len(calls) < first + 1 + subpix:
            # the cross supports were not (all) recomputed for the images of this call (e.g. reused from an earlier call on the same
            # object): the reference uses the arms the images of THIS call give, i.e. what the stub returns for them
            shp_ = [(Hc, Wc), (Hc, Wc)] + [(Hc, Wc - 1)] * (subpix - 1)
            ex['supports_not_recomputed'] = True
            while len(calls) < first + 1 + subpix:
                stub_cross(np.zeros(shp_[len(calls) - first], np.float32), len_arms, 5.0)
        al = calls[first]; ars = calls[first + 1:first + 1 + subpix]
        ex['arms'] = [c_.tolist() for c_ in calls[first:first + 1 + subpix]]
        ex['first_arms'] = [c_.tolist() for c_ in calls[:first]]
        props = [("cross-supports-are-computed-with-the-configured-distance-and-intensity", z3.BoolVal(all(p_ == (len_arms, 5.0) for p_ in passed[:len(calls)])))]
        ex['passed'] = passed[:6]
        for k, d in enumerate(ds):
            arr = ars[nshift(d)]
            for r in range(H):
                for c in range(W):
                    o = S.xlift(out._a[r, c, k]); i = S.xlift(cv0._a[r, c, k])
                    rc, cc0 = r - offset, c - offset
                    if not (0 <= rc < Hc and 0 <= cc0 < Wc) or not (0 <= cc0 + d and int(cc0 + d) < arr.shape[1]):
                        props.append(("nan-stays-nan[%d,%d,%s]" % (r, c, d), o.tag == 1)); continue
                    comb = lambda rr, cc, a_: min(al[rr, cc, a_], arr[rr, int(cc + d), a_])
                    top, bot = comb(rc, cc0, 2), comb(rc, cc0, 3)
                    total = z3.RealVal(0); count = 0
                    for rr in range(rc - top, rc + bot + 1):
                        lft, rgt = comb(rr, cc0, 0), comb(rr, cc0, 1)
                        for cc in range(cc0 - lft, cc0 + rgt + 1):
                            e = S.xlift(cv0._a[rr + offset, cc + offset, k])
                            total = total + z3.If(e.tag == 0, e.val, 0)
                            count += 1
                    props.append(("aggregated-cost-is-the-mean-over-the-combined-support[%d,%d,%s]" % (r, c, d),
                                  z3.If(i.tag == 1, o.tag == 1, z3.And(o.tag == 0, o.val * count == total))))
        col.check_path(props, label='p%d' % len(EX.trace), extra=ex, witnesses=[("a-support-larger-than-one-pixel", z3.BoolVal(bool((al > 0).any())))])
        info['fn'] = instr.fn_hash(CB.CrossBasedCostAggregation.cost_volume_aggregation, CB.CrossBasedCostAggregation.computes_cross_supports,
                                   CB.cbca_step_1, CB.cbca_step_2, CB.cbca_step_3, CB.cbca_step_4)
    res, stats = explore(h, max_paths=20000, time_cap_s=900, prefixes=[list(prefix)])
    return col.result(stats, functions=info.get('fn', {}),
                      bounds={'cost volume': [H, W, len(ds)], 'disparities': list(ds), 'subpix': subpix, 'cbca_distance': len_arms, 'window offset': offset,
                              'costs': 'NaN or integers in [0, 1000]', 'second call on the same object': second_call, 'prefix': ''.join('T' if b else 'F' for b in prefix),
                              'pixels with symbolic (solver-enumerated) arms': [list(p_) for p_ in sym_pixels], 'other arms': 'pseudo-random inside the invariant (seed %d)' % seed},
                      stubs=['cross_support = stub returning arbitrary arms within the invariant proved by the arms harness (assume-guarantee)'],
                      assumptions=['C11: a cost that is not computable (right column outside the image, border) is NaN on entry (postcondition of C02)',
                                   'C11: reals-for-floats for the normalisation sum / count'])


def _np_arms(p, len_arms, intensity):
    H, W = p.shape
    fin = lambda r, c: np.isfinite(p[r, c])
    close = lambda r, c, r2, c2: abs(p[r, c] - p[r2, c2]) < intensity
    return ref_arms(H, W, fin, close, len_arms)


def replay(cex):
    import xarray as xr
    import pandora.aggregation.cbca as CB
    from pandora import aggregation
    x = cex['extra']; inp = cex['inputs']; H, W = x['H'], x['W']
    if x.get('arms_harness'):
        im = np.array(inp['im'], np.float32).reshape(H, W)
        try:
            got = CB.cross_support(im.copy(), x['len_arms'], x['intensity'])
        except Exception as e:      # noqa
            return {'violates': True, 'detail': 'cross_support raised %r' % (e,)}
        ref = _np_arms(im, x['len_arms'], x['intensity'])
        bad = np.argwhere(got != ref)
        return {'violates': bool(len(bad)), 'detail': '' if not len(bad) else 'image %s distance %d intensity %s: arm %s of pixel (%d,%d) is %d, statement gives %d' % (
            im.tolist(), x['len_arms'], x['intensity'], ('left', 'right', 'up', 'down')[bad[0][2]], bad[0][0], bad[0][1], got[tuple(bad[0])], ref[tuple(bad[0])])}
    ds = x['disps']; D = len(ds); subpix = x['subpix']; offset = x['offset']
    arms_list = [np.array(a_, dtype=np.int16) for a_ in x['arms']]
    seq = [np.array(a_, dtype=np.int16) for a_ in x.get('first_arms', [])] + arms_list
    calls = {'n': 0}

    passed = []

    def stub_cross(image, len_arms_, intensity_):
        passed.append((int(len_arms_), float(intensity_)))
        a_ = seq[calls['n']] if calls['n'] < len(seq) else np.zeros(image.shape + (4,), np.int16)
        calls['n'] += 1
        return a_.copy()
    CB.cross_support = stub_cross
    rng = np.random.RandomState(1)
    mkimg = lambda: xr.Dataset({"im": (["row", "col"], rng.randint(0, 50, (H, W)).astype(np.float32))}, coords={"row": np.arange(H), "col": np.arange(W)},
                               attrs={"valid_pixels": 0, "no_data_mask": 1, "crs": None, "transform": None, "no_data_img": -9999})
    L, R = mkimg(), mkimg()
    cv0 = np.array(inp['cv'], np.float32).reshape(H, W, D)
    cv = xr.Dataset({"cost_volume": (["row", "col", "disp"], cv0.copy())}, coords={"row": np.arange(H), "col": np.arange(W), "disp": ds})
    cv.attrs = {"offset_row_col": offset, "subpixel": subpix, "cmax": 10, "type_measure": "min", "window_size": 2 * offset + 1}
    ag = aggregation.AbstractAggregation(**{"aggregation_method": "cbca", "cbca_intensity": 5.0, "cbca_distance": x['len_arms']})
    try:
        if x.get('second_call'):
            cv2 = xr.Dataset({"cost_volume": (["row", "col", "disp"], np.ones((H, W, D), np.float32))}, coords={"row": np.arange(H), "col": np.arange(W), "disp": ds}); cv2.attrs = dict(cv.attrs)
            ag.cost_volume_aggregation(mkimg(), mkimg(), cv2)
        ag.cost_volume_aggregation(L, R, cv)
    except Exception as e:      # noqa
        return {'violates': True, 'detail': 'cost_volume_aggregation raised %r' % (e,)}
    out = cv["cost_volume"].data
    al = arms_list[0]; ars = arms_list[1:]
    nshift = lambda d: int(round((d % 1) * subpix))
    bad = []
    if any(p_ != (x['len_arms'], 5.0) for p_ in passed):
        bad.append('cross_support called with (distance, intensity) %s, configured (%d, 5.0) on a %dx%d image' % (sorted(set(passed)), x['len_arms'], H, W))
    Hc, Wc = H - 2 * offset, W - 2 * offset
    for k, d in enumerate(ds):
        arr = ars[nshift(d)]
        for r in range(H):
            for c in range(W):
                rc, cc0 = r - offset, c - offset
                if np.isnan(cv0[r, c, k]) or not (0 <= rc < Hc and 0 <= cc0 < Wc) or not (0 <= cc0 + d and int(cc0 + d) < arr.shape[1]):
                    if not np.isnan(out[r, c, k]):
                        bad.append('cost (%d,%d,%s) was NaN and became %r' % (r, c, d, float(out[r, c, k])))
                    continue
                comb = lambda rr, cc, a_: min(al[rr, cc, a_], arr[rr, int(cc + d), a_])
                top, bot = comb(rc, cc0, 2), comb(rc, cc0, 3)
                tot = 0.0; cnt = 0
                for rr in range(rc - top, rc + bot + 1):
                    for cc in range(cc0 - comb(rr, cc0, 0), cc0 + comb(rr, cc0, 1) + 1):
                        if not np.isnan(cv0[rr + offset, cc + offset, k]):
                            tot += float(cv0[rr + offset, cc + offset, k])
                        cnt += 1
                if not np.isfinite(out[r, c, k]) or abs(float(out[r, c, k]) - tot / cnt) > 1e-3 * max(1.0, abs(tot / cnt)):
                    bad.append('aggregated cost (%d,%d,%s) is %r, mean over the combined support (%d pixels) is %r' % (r, c, d, float(out[r, c, k]), cnt, tot / cnt))
    return {'violates': bool(bad), 'detail': '; '.join(bad[:3]) + ' [arms=%s costs=%s]' % (x['arms'], cv0.tolist())}
