"""worker entry points for the E3 harness"""
from . import e3


def bmc():
    return e3.bmc()


def libval(maxlen):
    return e3.lib_validate(maxlen)


def words(maxlen, loop_max=2):
    acc, rej = e3.words_upto(maxlen, loop_max)
    return {'accepted': acc, 'rejected': rej}


def run(words, histories=True, mirror=True, ms_variants=((2, 2),), suffix_styles=(0,), fillings=(False,)):
    return e3.run_words(words, histories, mirror, tuple(tuple(x) for x in ms_variants), tuple(suffix_styles), tuple(fillings))


def replay(cex):
    """re-execute the failing word on the real machine in a fresh process; the obligation must fail again"""
    w = [e3.STEPS.index(s) for s in cex['word']]
    v = cex.get('variant') or {}
    if cex['name'] in ('language-equivalence',):
        r = e3.run_words([w], histories=False, mirror=False)
        bad = [c for c in r['cex'] if c['name'] in ('accepted-iff-documented-path', 'rejection-is-a-sequencing-error')]
        return {'violates': bool(bad), 'detail': '%s' % (bad[:1],)}
    if v.get('history'):
        import pandora, z3
        SM, CC = e3.make_stubs()
        from pandora.state_machine import PandoraMachine
        bad = []

        def ob(ok, name, word, detail=None):
            if not ok and name == cex['name']:
                bad.append(detail() if callable(detail) else detail)
        e3.history_case(ob, [e3.STEPS.index(s) for s in v['history']], w, PandoraMachine, CC, pandora, z3.Real('a'), z3.Real('b'))
        return {'violates': bool(bad), 'detail': (bad[0] or '')[:400] if bad else 'obligation holds on re-execution'}
    r = e3.run_words([w], True, True, (tuple(v.get('ms', (2, 2))),), (v.get('suffix_style', 0),), (v.get('filling', False),))
    bad = [c for c in r['cex'] if c['name'] == cex['name']]
    return {'violates': bool(bad), 'detail': (bad[0].get('detail') or '')[:400] if bad else 'obligation holds on re-execution'}
