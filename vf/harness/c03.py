"""C03 harnesses: the real WinnerTakesAll.to_disp / argmin_split / argmax_split on a symbolic cost volume."""
import numpy as np, z3


def _base(rng, R, C, D, ax, nan_upto=0):
    base = rng.randint(0, 5, size=(R, C, D)).astype(np.float32)
    nanmask = rng.rand(R, C, D) < 0.2
    if ax != 2:          # stripes along the disparity axis keep every concrete cost computable (count == D possible)
        base[nanmask] = np.nan
    if nan_upto:         # whole leading processing blocks without any computable cost (no-data area)
        if ax == 0:
            base[:nan_upto, :, :] = np.nan
        else:
            base[:, :nan_upto, :] = np.nan
    return base


def _disps(D, subpix, dmin):
    return np.arange(D, dtype=np.float64) / subpix + dmin


def _build(xr, S, R, C, D, measure, stripe, seed, subpix, dmin, nan_upto=0):
    """stripe: None = everything symbolic; else (axis, lo, hi): only rows/cols lo..hi-1 symbolic, rest concrete pseudo-random"""
    rng = np.random.RandomState(seed)
    if stripe is None:
        cv = S.fresh_array('cv', (R, C, D), 'f4')
        shape_cv = (R, C, D); sym_index = None
    else:
        ax, lo, hi = stripe
        base = _base(rng, R, C, D, ax, nan_upto)
        cv = S.SymArray(base, 'f4')
        shp = list((R, C, D)); shp[ax] = hi - lo
        sub = S.fresh_array('cv', tuple(shp), 'f4')
        sl = [slice(None)] * 3; sl[ax] = slice(lo, hi)
        cv._a[tuple(sl)] = sub._a
        shape_cv = tuple(shp); sym_index = (ax, lo, hi)
    vm = S.fresh_array('vm', (min(R, 3), min(C, 3)), 'u2')
    vmfull = S.SymArray(rng.randint(0, 4096, size=(R, C)).astype(np.uint16), 'u2')
    vmfull._a[:vm.shape[0], :vm.shape[1]] = vm._a
    conf = S.fresh_array('cf', (min(R, 2), min(C, 2), 1), 'f4')
    conffull = S.SymArray(rng.rand(R, C, 1).astype(np.float32), 'f4')
    conffull._a[:conf.shape[0], :conf.shape[1], :] = conf._a
    disps = _disps(D, subpix, dmin)
    ds = xr.Dataset({"cost_volume": (["row", "col", "disp"], cv), "validity_mask": (["row", "col"], vmfull),
                     "confidence_measure": (["row", "col", "indicator"], conffull)},
                    coords={"row": np.arange(R), "col": np.arange(C), "disp": disps, "indicator": ["confidence_from_ambiguity"]})
    ds.attrs = {"type_measure": measure, "offset_row_col": 0, "subpixel": subpix, "cmax": 10, "window_size": 1}
    return ds, cv, vmfull, conffull, disps, {'cv': (shape_cv, 'f4'), 'vm': (vm.shape, 'u2'), 'cf': (conf.shape, 'f4')}, sym_index, base if stripe else None


def wta(R, C, D, measure, invalid='-9999', stripe=None, seed=0, subpix=1, dmin=-1, cap=60, block=(), nan_upto=0):
    import xarray as xr
    from vf import symnp as S, instr
    from vf.explore import EX, explore
    from vf.hutil import Collector
    import pandora.disparity.disparity as DD
    col = Collector(cap_s=cap)
    info = {}

    def h():
        ds, cv, vm, conf, disps, shapes, sym_index, base = _build(xr, S, R, C, D, measure, stripe, seed, subpix, dmin, nan_upto)
        col.shapes = dict(shapes)
        cv0 = cv.copy(); vm0 = vm.copy(); cf0 = conf.copy()
        for e in cv._a.flat:
            if isinstance(e, S.Sym):
                EX.assume(z3.Not(z3.fpIsInf(e.t)))          # documented precondition: costs are finite or NaN
        wtao = DD.AbstractDisparity(**{"disparity_method": "wta", "invalid_disparity": -9999})
        if invalid == 'nan':
            inv = np.float32('nan')
        elif invalid == 'sym':
            inv = S.fresh_scalar('inv', 'f4'); col.shapes['inv'] = ((), 'f4')
        else:
            inv = float(invalid)
        wtao._invalid_disparity = inv
        out = wtao.to_disp(ds)
        dm = out["disparity_map"].data
        props = []
        better = z3.fpLT if measure == 'min' else z3.fpGT
        for r in range(R):
            for c in range(C):
                costs = [S.lift(cv0._a[r, c, d], 'f4') for d in range(D)]
                o = dm._a[r, c]
                ot = S.lift(o, 'f4')
                if not any(isinstance(cv0._a[r, c, d], S.Sym) for d in range(D)) and not isinstance(o, S.Sym):
                    # fully concrete pixel: check with numpy directly
                    vals = np.array([cv0._a[r, c, d] for d in range(D)], dtype=np.float32)
                    exp = _oracle_pixel(vals, disps, measure, inv if not isinstance(inv, S.Sym) else None)
                    if exp is not None:
                        ok = (np.float32(o) == np.float32(exp)) or (np.isnan(o) and np.isnan(exp))
                        props.append(("wta-concrete[%d,%d]" % (r, c), z3.BoolVal(bool(ok))))
                        continue
                allnan = z3.And(*[z3.fpIsNaN(x) for x in costs])
                cases = []
                # candidates: every symbolic cost + the first best of the concrete ones (it dominates the other concrete costs)
                cand = [d for d in range(D) if isinstance(cv0._a[r, c, d], S.Sym)]
                conc = [d for d in range(D) if not isinstance(cv0._a[r, c, d], S.Sym) and not np.isnan(cv0._a[r, c, d])]
                if conc:
                    vals = np.array([cv0._a[r, c, d] for d in conc], dtype=np.float32)
                    cand.append(conc[int(np.argmin(vals) if measure == 'min' else np.argmax(vals))])
                cand.sort()
                for d in cand:
                    isbest = z3.And(z3.Not(z3.fpIsNaN(costs[d])),
                                    *[z3.Or(z3.fpIsNaN(costs[e]), z3.Not(better(costs[e], costs[d]))) for e in cand if e != d],
                                    *[z3.Or(z3.fpIsNaN(costs[e]), better(costs[d], costs[e])) for e in cand if e < d])
                    cases.append(z3.Implies(isbest, ot == z3.FPVal(float(np.float32(disps[d])), z3.Float32())))
                props.append(("wta[%d,%d]" % (r, c), z3.And(z3.Implies(allnan, S.term_eq(o, inv, 'f4')), *cases)))
        # cost volume bitwise unchanged, mask and confidence carried over, interval and disp_indices
        after = ds["cost_volume"].data
        same = [S.term_eq(after._a[i], cv0._a[i], 'f4') for i in np.ndindex(R, C, D)
                if isinstance(cv0._a[i], S.Sym) or isinstance(after._a[i], S.Sym) or not _same(after._a[i], cv0._a[i])]
        props.append(("cost-volume-unchanged", z3.And(*same) if same else z3.BoolVal(True)))
        ovm = out["validity_mask"].data; ocf = out["confidence_measure"].data
        props.append(("validity-mask-carried", z3.And(*[S.term_eq(ovm._a[i], vm0._a[i], 'u2') for i in np.ndindex(R, C)])))
        props.append(("confidence-carried", z3.And(*[S.term_eq(ocf._a[i], cf0._a[i], 'f4') for i in np.ndindex(R, C, 1)])))
        # the map's flags and confidence are copies: a later step raising a bit on the map must not write into the cost volume dataset
        def _alias(a, b):
            return a is b or (isinstance(a, S.SymArray) and isinstance(b, S.SymArray) and (a._a is b._a or np.shares_memory(a._a, b._a)))
        # (the confidence bands ARE shared with the cost volume dataset by the real code; later steps allocate new band arrays instead of
        # writing in place, so only the flags are required to be a copy)
        props.append(("map-flags-do-not-alias-the-cost-volume-dataset", z3.BoolVal(not _alias(ovm, ds["validity_mask"].data))))
        di = np.asarray(out["disparity_interval"].data, dtype=np.float64)
        props.append(("interval-stored", z3.BoolVal(bool(di[0] == disps[0] and di[1] == disps[-1]))))
        dix = ds["disp_indices"].data
        props.append(("disp-indices", z3.And(*[S.term_eq(dix._a[i], dm._a[i], 'f4') for i in np.ndindex(R, C)])))
        props.append(("inputs-dataset-vars", z3.BoolVal(set(out.data_vars) == {"disparity_map", "disparity_interval", "confidence_measure", "validity_mask"})))
        wit = [("count-of-computable-costs-equals-%d" % (D - 1), z3.Or(*[z3.Xor(z3.fpIsNaN(S.lift(cv0._a[r, c, 0], 'f4')), z3.fpIsNaN(S.lift(cv0._a[r, c, 1], 'f4')))
                                                        for r in range(R) for c in range(C)]))] if (stripe and stripe[0] == 2) else [("some-pixel-all-nan", z3.Or(*[z3.And(*[z3.fpIsNaN(S.lift(cv0._a[r, c, d], 'f4')) for d in range(D)])
                                               for r in range(R) for c in range(C) if isinstance(cv0._a[r, c, 0], S.Sym)])),
               ("a-tie-exists", z3.Or(*[z3.fpEQ(S.lift(cv0._a[r, c, 0], 'f4'), S.lift(cv0._a[r, c, 1], 'f4'))
                                        for r in range(R) for c in range(C) if isinstance(cv0._a[r, c, 0], S.Sym)]))] if D >= 2 else []
        col.check_path(props, label='p%d' % len(EX.trace), witnesses=wit,
                       extra={'R': R, 'C': C, 'D': D, 'measure': measure, 'invalid': invalid, 'stripe': stripe, 'seed': seed,
                              'subpix': subpix, 'dmin': dmin, 'nan_upto': nan_upto})
        info['fn'] = instr.fn_hash(DD.WinnerTakesAll.to_disp, DD.WinnerTakesAll.argmin_split, DD.WinnerTakesAll.argmax_split,
                                   DD.extract_disparity_interval_from_cost_volume)
    res, stats = explore(h, max_paths=64)
    return col.result(stats, functions=info.get('fn', {}),
                      bounds={'shape': [R, C, D], 'measure': measure, 'invalid_disparity': invalid, 'symbolic_stripe': stripe,
                              'subpix': subpix, 'costs': 'float32, any finite value or NaN'},
                      assumptions=['C03: costs are finite or NaN (no +-inf) -- documented precondition of the disparity step'])


def _same(a, b):
    a = np.float32(a); b = np.float32(b)
    return bool(a == b or (np.isnan(a) and np.isnan(b)))


def _oracle_pixel(vals, disps, measure, inv):
    ok = ~np.isnan(vals)
    if not ok.any():
        return inv
    best = np.nanmin(vals) if measure == 'min' else np.nanmax(vals)
    return np.float32(disps[int(np.argmax(ok & (vals == best)))])


def replay(cex):
    """run the real (JIT, uninstrumented) code on the model and evaluate the statement-derived numpy oracle"""
    import xarray as xr, copy
    import pandora.disparity.disparity as DD
    x = cex['extra']; R, C, D = x['R'], x['C'], x['D']
    rng = np.random.RandomState(x['seed'])
    inp = cex['inputs']
    if x['stripe'] is None:
        cv = np.array(inp['cv'], dtype=np.float32).reshape(R, C, D)
    else:
        ax, lo, hi = x['stripe']
        cv = _base(rng, R, C, D, ax, x.get('nan_upto', 0))
        sl = [slice(None)] * 3; sl[ax] = slice(lo, hi)
        cv[tuple(sl)] = np.array(inp['cv'], dtype=np.float32)
    vm = rng.randint(0, 4096, size=(R, C)).astype(np.uint16)
    v = np.array(inp['vm'], dtype=np.uint16); vm[:v.shape[0], :v.shape[1]] = v
    cf = rng.rand(R, C, 1).astype(np.float32)
    f = np.array(inp['cf'], dtype=np.float32); cf[:f.shape[0], :f.shape[1], :] = f
    disps = _disps(D, x['subpix'], x['dmin'])
    ds = xr.Dataset({"cost_volume": (["row", "col", "disp"], cv.copy()), "validity_mask": (["row", "col"], vm.copy()),
                     "confidence_measure": (["row", "col", "indicator"], cf.copy())},
                    coords={"row": np.arange(R), "col": np.arange(C), "disp": disps, "indicator": ["confidence_from_ambiguity"]})
    ds.attrs = {"type_measure": x['measure'], "offset_row_col": 0, "subpixel": x['subpix'], "cmax": 10, "window_size": 1}
    inv = np.float32('nan') if x['invalid'] == 'nan' else (np.float32(np.array(inp['inv'])) if x['invalid'] == 'sym' else float(x['invalid']))
    w = DD.AbstractDisparity(**{"disparity_method": "wta", "invalid_disparity": -9999})
    w._invalid_disparity = inv
    try:
        out = w.to_disp(ds)
    except Exception as e:      # noqa
        return {'violates': True, 'detail': 'to_disp raised %r' % (e,)}
    dm = out["disparity_map"].data
    bad = []
    for r in range(R):
        for c in range(C):
            exp = _oracle_pixel(cv[r, c], disps, x['measure'], inv)
            if not _same(dm[r, c], exp):
                bad.append('pixel (%d,%d): costs %s -> disparity %r, expected %r' % (r, c, cv[r, c].tolist(), float(dm[r, c]), float(exp)))
    if not np.array_equal(ds["cost_volume"].data, cv, equal_nan=True):
        bad.append('cost volume modified')
    if not np.array_equal(out["validity_mask"].data, vm):
        bad.append('validity mask altered')
    if not np.array_equal(out["confidence_measure"].data, cf, equal_nan=True):
        bad.append('confidence altered')
    di = out["disparity_interval"].data
    if not (di[0] == disps[0] and di[1] == disps[-1]):
        bad.append('stored interval %s' % (di,))
    if np.shares_memory(out["validity_mask"].data, ds["validity_mask"].data):
        out["validity_mask"].data[0, 0] |= 8
        bad.append('the validity mask of the disparity map aliases the one of the cost volume dataset: raising bit 3 on the map changed the cost volume flags to %s'
                   % int(ds["validity_mask"].data[0, 0]))
    return {'violates': bool(bad), 'detail': '; '.join(bad[:3])}
