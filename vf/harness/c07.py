"""C07: the real CrossCheckingAccurate.disparity_checking on symbolic one-row disparity maps (forking on per-pixel classes)."""
import numpy as np, z3

INVALID = 0b01111000011
KNOWN = {'KF-C07-outside-mismatch': 'valid pixel whose correspondent p+round(dL) is outside the right image while some d of the interval has round(dR(p+d)) == -d'}


def _mk(xr, S, name, H, W, dmin, dmax, offset, sym_rows):
    d = S.SymArray(np.zeros((H, W), np.float32), 'f4'); m = S.SymArray(np.zeros((H, W), np.uint16), 'u2')
    ds_ = S.fresh_array(name + 'd', (len(sym_rows), W), 'f4'); ms_ = S.fresh_array(name + 'm', (len(sym_rows), W), 'u2')
    for i, r in enumerate(sym_rows):
        d._a[r, :] = ds_._a[i, :]; m._a[r, :] = ms_._a[i, :]
    ds = xr.Dataset({"disparity_map": (["row", "col"], d), "validity_mask": (["row", "col"], m)},
                    coords={"row": np.arange(H), "col": np.arange(W)})
    ds["disparity_interval"] = xr.DataArray([dmin, dmax], coords=[("disparity", ["min", "max"])])
    ds.attrs = {"offset_row_col": offset}
    return ds, d, m


def xcheck(W, dmin, dmax, thr='1.0', H=1, offset=0, prefix=(), cap=60, block=(), max_paths=4000, time_cap=None, conf_band=False):
    import xarray as xr
    from vf import symnp as S, instr
    from vf.explore import EX, explore
    from vf.hutil import Collector
    import pandora.validation.validation as V
    import pandora.cost_volume_confidence.cost_volume_confidence as CC
    import pandora.criteria as CR
    col = Collector(cap_s=cap, block=list(block))
    info = {}
    F32 = z3.Float32(); F64 = z3.Float64(); RNE = z3.RNE()
    sym_rows = [0] if H == 1 else [offset]          # one symbolic row (rows are processed independently by the code)

    def h():
        L, dL, mL = _mk(xr, S, 'l', H, W, dmin, dmax, offset, sym_rows)
        R, dR, mR = _mk(xr, S, 'r', H, W, -dmax, -dmin, offset, sym_rows)
        col.shapes = {'ld': ((1, W), 'f4'), 'lm': ((1, W), 'u2'), 'rd': ((1, W), 'f4'), 'rm': ((1, W), 'u2')}
        r0 = sym_rows[0]
        dl = [dL._a[r0, c].t for c in range(W)]; dr = [dR._a[r0, c].t for c in range(W)]
        ml = [mL._a[r0, c].t for c in range(W)]
        if thr == 'sym':
            th = S.fresh_scalar('thr', 'f4'); col.shapes['thr'] = ((), 'f4')
            EX.assume(z3.And(z3.Not(z3.fpIsNaN(th.t)), z3.fpGEQ(th.t, z3.FPVal(0.0, F32)), z3.Not(z3.fpIsInf(th.t))))
            tht = th.t
        else:
            th = float(thr); tht = z3.FPVal(th, F32)
        for c in range(W):
            # preconditions: representation invariant of the mask; left disparities of valid pixels finite and bounded;
            # right disparities finite (|x| <= 2^20) or NaN
            EX.assume(z3.ULT(ml[c], z3.BitVecVal(4096, 16)))
            EX.assume(z3.ULT(mR._a[r0, c].t, z3.BitVecVal(4096, 16)))
            EX.assume(z3.And(z3.Not(z3.fpIsNaN(dl[c])), z3.fpLEQ(z3.fpAbs(dl[c]), z3.FPVal(16.0, F32))))
            EX.assume(z3.Or(z3.fpIsNaN(dr[c]), z3.fpLEQ(z3.fpAbs(dr[c]), z3.FPVal(2.0 ** 20, F32))))
        dL0 = dL.copy(); mL0 = mL.copy(); dR0 = dR.copy(); mR0 = mR.copy()
        if conf_band:
            cf = S.fresh_array('cf', (H, W, 1), 'f4'); col.shapes['cf'] = ((H, W, 1), 'f4')
            L["confidence_measure"] = xr.DataArray(cf, dims=["row", "col", "indicator"], coords={"indicator": ["confidence_from_ambiguity"]})
            cf0 = cf.copy()
        v = V.AbstractValidation(**{"validation_method": "cross_checking_accurate", "cross_checking_threshold": 1.0})
        v._threshold = th
        try:
            out = v.disparity_checking(L, R)
        except S.Unsupported:
            raise
        except Exception as e:      # noqa: an exception on a feasible path is a counterexample candidate
            col.path_exception(e, label='p%d' % len(EX.trace), extra={'W': W, 'dmin': dmin, 'dmax': dmax, 'thr': thr, 'H': H, 'offset': offset})
            return
        om = out["validity_mask"].data; od = out["disparity_map"].data
        ind = list(out.coords["indicator"].data)
        oc = out["confidence_measure"].data
        props = []
        kf_terms = []
        for p in range(W):
            valid = (ml[p] & INVALID) == 0
            q = z3.fpRoundToIntegral(RNE, z3.fpAdd(RNE, z3.FPVal(float(p), F64), z3.fpToFP(RNE, dl[p], F64)))
            conv = lambda x: z3.If(z3.fpIsNaN(x), z3.fpPlusInfinity(F32), x)
            dist = [z3.fpAbs(z3.fpAdd(RNE, conv(dr[j]), conv(dl[p]))) for j in range(W)]
            isq = [z3.fpEQ(q, z3.FPVal(float(j), F64)) for j in range(W)]
            inside = z3.Or(*isq)
            consistent = z3.Or(*[z3.And(isq[j], z3.fpLEQ(dist[j], tht)) for j in range(W)])
            match = z3.Or(*[z3.fpEQ(z3.fpRoundToIntegral(RNE, dr[p + d]), z3.FPVal(float(-d), F32))
                            for d in range(dmin, dmax + 1) if 0 <= p + d < W]) if any(0 <= p + d < W for d in range(dmin, dmax + 1)) else z3.BoolVal(False)
            exp_mask = z3.If(z3.Or(z3.Not(valid), consistent), ml[p], z3.If(match, ml[p] | 512, ml[p] | 256))
            border = offset > 0 and (p < offset or p >= W - offset or H == 1)
            got = S.lift(om._a[r0, p], 'u2')
            if offset > 0 and (p < offset or p >= W - offset):
                props.append(("border-bit0-only[%d]" % p, got == z3.BitVecVal(1, 16)))
            else:
                props.append(("flags[%d]" % p, got == exp_mask))
                props.append(("never-both[%d]" % p, z3.Or(z3.Not(valid), (got & 768) != 768)))
            exp_conf = z3.If(z3.And(valid, inside), _pick(isq, dist), z3.fpNaN(F32))
            gc = S.lift(oc._a[r0, p, len(ind) - 1], 'f4')
            props.append(("confidence[%d]" % p, z3.Or(z3.And(z3.fpIsNaN(gc), z3.fpIsNaN(exp_conf)), gc == exp_conf)))
            props.append(("disparity-untouched[%d]" % p, S.term_eq(od._a[r0, p], dL0._a[r0, p], 'f4')))
            props.append(("right-map-untouched[%d]" % p, z3.And(S.term_eq(R["disparity_map"].data._a[r0, p], dR0._a[r0, p], 'f4'),
                                                               S.term_eq(R["validity_mask"].data._a[r0, p], mR0._a[r0, p], 'u2'))))
            kf_terms.append(z3.And(valid, z3.Not(inside), match))
        props.append(("band-name", z3.BoolVal(ind[-1] == "confidence_from_left_right_consistency")))
        if conf_band:
            props.append(("existing-band-kept", z3.And(*[S.term_eq(oc._a[i, j, 0], cf0._a[i, j, 0], 'f4') for i in range(H) for j in range(W)])))
        col.known = {'KF-C07-outside-mismatch': lambda: z3.Or(*kf_terms)}
        wit = [("some-valid-pixel-flagged", z3.Or(*[z3.And((ml[p] & INVALID) == 0, (S.lift(om._a[r0, p], 'u2') & 768) != 0) for p in range(W)])),
               ("some-valid-pixel-kept", z3.Or(*[z3.And((ml[p] & INVALID) == 0, (S.lift(om._a[r0, p], 'u2') & 768) == 0) for p in range(W)]))]
        col.check_path(props, label='p' + ''.join('T' if b else 'F' for b in EX.trace), witnesses=wit,
                       extra={'W': W, 'dmin': dmin, 'dmax': dmax, 'thr': thr, 'H': H, 'offset': offset, 'conf_band': conf_band})
        info['fn'] = instr.fn_hash(V.CrossCheckingAccurate.disparity_checking, CC.AbstractCostVolumeConfidence.allocate_confidence_map, CR.mask_border)
    res, stats = explore(h, max_paths=max_paths, time_cap_s=time_cap, prefixes=[list(prefix)])
    return col.result(stats, functions=info.get('fn', {}),
                      bounds={'cols': W, 'rows': H, 'symbolic_rows': 1, 'interval': [dmin, dmax], 'threshold': thr, 'offset': offset,
                              'left disparities of valid pixels': 'finite float32, |d| <= 16', 'right disparities': 'NaN or |d| <= 2^20',
                              'masks': 'any uint16 < 4096', 'prefix': ''.join('T' if b else 'F' for b in prefix)},
                      assumptions=['C07: left disparities of still-valid pixels are finite (|d| <= 16); right disparities finite or NaN; masks < 4096',
                                   'C07: threshold representable in float32 (numpy compares float32 distances with a weak python float)'])


def _concrete_ds(xr, H, W, dmin, dmax, offset, S=None):
    d = np.zeros((H, W), np.float32); d[:, ::2] = dmin
    m = np.zeros((H, W), np.uint16)
    if S is not None:
        d = S.SymArray(d, 'x4'); m = S.SymArray(m, 'u2')
    ds = xr.Dataset({"disparity_map": (["row", "col"], d), "validity_mask": (["row", "col"], m)},
                    coords={"row": np.arange(H), "col": np.arange(W)})
    ds["disparity_interval"] = xr.DataArray([dmin, dmax], coords=[("disparity", ["min", "max"])])
    ds.attrs = {"offset_row_col": offset}
    return ds


def _rint_real(x):
    fl = z3.ToInt(x); fr = x - z3.ToReal(fl)
    return z3.If(fr < z3.RealVal('1/2'), fl, z3.If(fr > z3.RealVal('1/2'), fl + 1, z3.If(fl % 2 == 0, fl, fl + 1)))


def xcheck_exact(W, dmin, dmax, thr='1', H=1, offset=0, prefix=(), cap=60, block=(), max_paths=4000, time_cap=None, conf_band=False,
                 scale=64, bound=16, warm=False, col0=0):
    """same harness in the exact value domain: disparities are multiples of 1/scale (|d| <= bound; right map also NaN),
    so that every float32/float64 operation of the code is exact; masks stay bit-vectors"""
    import xarray as xr
    from vf import symnp as S, instr
    from vf.explore import EX, explore
    from vf.hutil import Collector
    import pandora.validation.validation as V
    import pandora.cost_volume_confidence.cost_volume_confidence as CC
    import pandora.criteria as CR
    col = Collector(cap_s=cap, block=list(block))
    info = {}
    r0 = 0 if H == 1 else offset

    def mk(name, dmin_, dmax_, tagged):
        d = S.SymArray(np.zeros((H, W), np.float32), 'x4'); m = S.SymArray(np.zeros((H, W), np.uint16), 'u2')
        ds_ = S.fresh_array(name + 'd', (1, W), 'x4', tagged=tagged, scale=scale, tags=(0, 1)); ms_ = S.fresh_array(name + 'm', (1, W), 'u2')
        d._a[r0, :] = ds_._a[0, :]; m._a[r0, :] = ms_._a[0, :]
        # col0 != 0: datasets read through a ROI keep the coordinates of the whole image (the rule must use positions, not labels)
        ds = xr.Dataset({"disparity_map": (["row", "col"], d), "validity_mask": (["row", "col"], m)}, coords={"row": np.arange(H), "col": np.arange(col0, col0 + W)})
        ds["disparity_interval"] = xr.DataArray([dmin_, dmax_], coords=[("disparity", ["min", "max"])])
        ds.attrs = {"offset_row_col": offset}
        return ds, d, m

    def h():
        L, dL, mL = mk('l', dmin, dmax, False)
        R, dR, mR = mk('r', -dmax, -dmin, True)
        col.shapes = {'ld': ((1, W), 'x4'), 'lm': ((1, W), 'u2'), 'rd': ((1, W), 'x4'), 'rm': ((1, W), 'u2')}
        dl = [dL._a[r0, c].t.val for c in range(W)]
        drt = [dR._a[r0, c].t.tag for c in range(W)]; drv = [dR._a[r0, c].t.val for c in range(W)]
        ml = [mL._a[r0, c].t for c in range(W)]
        if thr == 'sym':
            th = S.fresh_array('thr', (1,), 'x4', scale=scale)._a[0]; col.shapes['thr'] = ((1,), 'x4')
            EX.assume(z3.And(th.t.val >= 0, th.t.val <= bound))
            tht = th.t.val
        else:
            from fractions import Fraction
            th = float(Fraction(thr)); tht = z3.RealVal(thr)
        for c in range(W):
            EX.assume(z3.ULT(ml[c], z3.BitVecVal(4096, 16)))
            EX.assume(z3.ULT(mR._a[r0, c].t, z3.BitVecVal(4096, 16)))
            EX.assume(z3.And(dl[c] >= -bound, dl[c] <= bound, drv[c] >= -bound * 64, drv[c] <= bound * 64))
        dL0 = dL.copy(); mL0 = mL.copy(); dR0 = dR.copy(); mR0 = mR.copy()
        if conf_band:
            cf = S.fresh_array('cf', (H, W, 1), 'x4', tagged=True, tags=(0, 1)); col.shapes['cf'] = ((H, W, 1), 'x4')
            L["confidence_measure"] = xr.DataArray(cf, dims=["row", "col", "indicator"], coords={"indicator": ["confidence_from_ambiguity"]})
            cf0 = cf.copy()
        v = V.AbstractValidation(**{"validation_method": "cross_checking_accurate", "cross_checking_threshold": 1.0})
        v._threshold = th
        if warm:
            # history: the same validator object already checked another (concrete) pair with a different interval
            wl = _concrete_ds(xr, H, W, -dmax - 1, -dmin + 1, offset, S); wr = _concrete_ds(xr, H, W, dmin - 1, dmax + 1, offset, S)
            v.disparity_checking(wl, wr)
        ex = {'W': W, 'dmin': dmin, 'dmax': dmax, 'thr': thr, 'H': H, 'offset': offset, 'conf_band': conf_band, 'exact': True, 'warm': warm, 'col0': col0}
        try:
            out = v.disparity_checking(L, R)
        except S.Unsupported:
            raise
        except Exception as e:      # noqa
            col.path_exception(e, label='p%d' % len(EX.trace), extra=ex)
            return
        om = out["validity_mask"].data; od = out["disparity_map"].data
        ind = list(out.coords["indicator"].data)
        oc = out["confidence_measure"].data
        props = []; kf_terms = []
        for p in range(W):
            valid = (ml[p] & INVALID) == 0
            q = _rint_real(z3.RealVal(p) + dl[p])
            isq = [q == j for j in range(W)]
            inside = z3.Or(*isq)
            dist = [z3.If(drv[j] + dl[p] < 0, -(drv[j] + dl[p]), drv[j] + dl[p]) for j in range(W)]
            consistent = z3.Or(*[z3.And(isq[j], drt[j] == 0, dist[j] <= tht) for j in range(W)])
            ds_ = [d for d in range(dmin, dmax + 1) if 0 <= p + d < W]
            match = z3.Or(*[z3.And(drt[p + d] == 0, _rint_real(drv[p + d]) == -d) for d in ds_]) if ds_ else z3.BoolVal(False)
            exp_mask = z3.If(z3.Or(z3.Not(valid), consistent), ml[p], z3.If(match, ml[p] | 512, ml[p] | 256))
            got = S.lift(om._a[r0, p], 'u2')
            if offset > 0 and (p < offset or p >= W - offset):
                props.append(("border-bit0-only[%d]" % p, got == z3.BitVecVal(1, 16)))
            else:
                props.append(("flags[%d]" % p, got == exp_mask))
                props.append(("never-both[%d]" % p, z3.Or(z3.Not(valid), (got & 768) != 768)))
            g = S.xlift(oc._a[r0, p, len(ind) - 1])
            # expected confidence: (tag, val)
            e_tag = z3.If(z3.And(valid, inside), _pick(isq, [z3.If(drt[j] == 0, z3.IntVal(0), z3.IntVal(2)) for j in range(W)]), z3.IntVal(1))
            e_val = _pick(isq, dist)
            props.append(("confidence[%d]" % p, z3.And(g.tag == e_tag, z3.Or(e_tag != 0, g.val == e_val))))
            props.append(("disparity-untouched[%d]" % p, S.term_eq(od._a[r0, p], dL0._a[r0, p], 'x4')))
            props.append(("right-map-untouched[%d]" % p, z3.And(S.term_eq(R["disparity_map"].data._a[r0, p], dR0._a[r0, p], 'x4'),
                                                               S.term_eq(R["validity_mask"].data._a[r0, p], mR0._a[r0, p], 'u2'))))
            kf_terms.append(z3.And(valid, z3.Not(inside), match))
        props.append(("band-name", z3.BoolVal(ind[-1] == "confidence_from_left_right_consistency")))
        if conf_band:
            props.append(("existing-band-kept", z3.And(*[S.term_eq(oc._a[i, j, 0], cf0._a[i, j, 0], 'x4') for i in range(H) for j in range(W)])))
        col.known = {'KF-C07-outside-mismatch': lambda: z3.Or(*kf_terms)}
        wit = [("some-valid-pixel-flagged", z3.Or(*[z3.And((ml[p] & INVALID) == 0, (S.lift(om._a[r0, p], 'u2') & 768) != 0) for p in range(W)])),
               ("some-valid-pixel-kept", z3.Or(*[z3.And((ml[p] & INVALID) == 0, (S.lift(om._a[r0, p], 'u2') & 768) == 0) for p in range(W)]))]
        col.check_path(props, label='p' + ''.join('T' if b else 'F' for b in EX.trace), witnesses=wit, extra=ex)
        info['fn'] = instr.fn_hash(V.CrossCheckingAccurate.disparity_checking, CC.AbstractCostVolumeConfidence.allocate_confidence_map, CR.mask_border)
    res, stats = explore(h, max_paths=max_paths, time_cap_s=time_cap, prefixes=[list(prefix)])
    return col.result(stats, functions=info.get('fn', {}),
                      bounds={'cols': W, 'rows': H, 'symbolic_rows': 1, 'interval': [dmin, dmax], 'threshold': thr, 'offset': offset,
                              'domain': 'exact: disparities are multiples of 1/%d with |d| <= %d (right map: also NaN); float32 arithmetic is exact there' % (scale, bound),
                              'masks': 'any uint16 < 4096', 'prefix': ''.join('T' if b else 'F' for b in prefix)},
                      assumptions=['C07: exact value domain -- disparities are multiples of 1/%d, |d| <= %d (right map may be NaN); masks < 4096' % (scale, bound)])


def _pick(conds, vals):
    r = vals[-1]
    for c, v in zip(conds[-2::-1], vals[-2::-1]):
        r = z3.If(c, v, r)
    return r


def _oracle(dl, dr, ml, dmin, dmax, thr, offset=0):
    """statement-derived numpy oracle for one row"""
    W = len(dl); em = ml.copy(); ec = np.full(W, np.nan, np.float32)
    known = False
    for p in range(W):
        if ml[p] & INVALID:
            continue
        q = int(np.rint(np.float64(p) + np.float64(dl[p])))
        conv = lambda x: np.float32(np.inf) if np.isnan(x) else np.float32(x)
        ok = False
        if 0 <= q < W:
            with np.errstate(all='ignore'):
                dist = np.abs(conv(dr[q]) + conv(dl[p]))
            ec[p] = dist
            ok = dist <= np.float32(thr)
        if not ok:
            match = any(0 <= p + d < W and np.rint(dr[p + d]) == -d for d in range(dmin, dmax + 1))
            em[p] |= 512 if match else 256
            if not (0 <= q < W) and match:
                known = True
    return em, ec, known


def replay(cex):
    import xarray as xr
    import pandora.validation.validation as V
    x = cex['extra']; W, H, offset = x['W'], x['H'], x['offset']
    inp = cex['inputs']
    r0 = 0 if H == 1 else offset

    def mk(dv, mv, dmin, dmax):
        d = np.zeros((H, W), np.float32); m = np.zeros((H, W), np.uint16)
        d[r0] = np.array(dv, np.float32).reshape(-1); m[r0] = np.array(mv, np.uint16).reshape(-1)
        c0 = x.get('col0', 0)
        ds = xr.Dataset({"disparity_map": (["row", "col"], d), "validity_mask": (["row", "col"], m)}, coords={"row": np.arange(H), "col": np.arange(c0, c0 + W)})
        ds["disparity_interval"] = xr.DataArray([dmin, dmax], coords=[("disparity", ["min", "max"])])
        ds.attrs = {"offset_row_col": offset}
        return ds
    L = mk(inp['ld'], inp['lm'], x['dmin'], x['dmax']); R = mk(inp['rd'], inp['rm'], -x['dmax'], -x['dmin'])
    if x.get('conf_band'):
        L["confidence_measure"] = xr.DataArray(np.array(inp['cf'], np.float32).reshape(H, W, 1), dims=["row", "col", "indicator"],
                                               coords={"indicator": ["confidence_from_ambiguity"]})
    from fractions import Fraction
    thr = float(np.float32(np.array(inp['thr']).reshape(-1)[0])) if x['thr'] == 'sym' else float(Fraction(x['thr']))
    dl0 = L["disparity_map"].data.copy(); ml0 = L["validity_mask"].data.copy(); dr0 = R["disparity_map"].data.copy()
    v = V.AbstractValidation(**{"validation_method": "cross_checking_accurate", "cross_checking_threshold": thr})
    if x.get('warm'):
        v.disparity_checking(_concrete_ds(xr, H, W, -x['dmax'] - 1, -x['dmin'] + 1, offset), _concrete_ds(xr, H, W, x['dmin'] - 1, x['dmax'] + 1, offset))
    try:
        out = v.disparity_checking(L, R)
    except Exception as e:      # noqa
        return {'violates': True, 'detail': 'disparity_checking raised %r on dL=%s dR=%s mask=%s' % (e, dl0[r0].tolist(), dr0[r0].tolist(), ml0[r0].tolist())}
    em, ec, known = _oracle(dl0[r0], dr0[r0], ml0[r0], x['dmin'], x['dmax'], thr, offset)
    gm = out["validity_mask"].data[r0]; gc = out["confidence_measure"].data[r0, :, -1]
    bad = []
    for p in range(W):
        if offset > 0 and (p < offset or p >= W - offset):
            if gm[p] != 1:
                bad.append('border pixel %d has flags %d' % (p, gm[p]))
            continue
        if gm[p] != em[p]:
            bad.append('pixel %d: flags %d, statement says %d' % (p, gm[p], em[p]))
        if not (gc[p] == ec[p] or (np.isnan(gc[p]) and np.isnan(ec[p]))):
            bad.append('pixel %d: confidence %r, statement says %r' % (p, float(gc[p]), float(ec[p])))
    if not np.array_equal(out["disparity_map"].data, dl0, equal_nan=True):
        bad.append('left disparity modified')
    if not np.array_equal(R["disparity_map"].data, dr0, equal_nan=True):
        bad.append('right disparity modified')
    only_known = known and all('flags' in b for b in bad) and len(bad) > 0
    kn = None
    if bad and known:
        # is every discrepancy of the known class? (q outside and a matching d exists, code says occlusion)
        kn = 'KF-C07-outside-mismatch'
        for p in range(W):
            if gm[p] != em[p]:
                q = int(np.rint(np.float64(p) + np.float64(dl0[r0, p])))
                if 0 <= q < W or not (gm[p] == (ml0[r0, p] | 256) and em[p] == (ml0[r0, p] | 512)):
                    kn = None
        if any('flags' not in b for b in bad):
            kn = None
    return {'violates': bool(bad), 'known': kn,
            'detail': '; '.join(bad[:3]) + ' [dL=%s dR=%s mask=%s interval=[%d,%d] thr=%s]' % (dl0[r0].tolist(), dr0[r0].tolist(), ml0[r0].tolist(), x['dmin'], x['dmax'], thr)}
