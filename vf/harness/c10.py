"""C10 harnesses: median / median_for_intervals / bilateral filters on symbolic disparity maps and validity masks."""
import numpy as np, z3

INVALID = 0b01111000011


def _rank_median(S, o, vals):
    """order-statistics characterisation of 'o is a median of vals' (vals: list of (present z3 Bool, Real value)); independent of the
    sorting network the engine uses to model numpy's nanmedian.  n = number of present values:
    #(v <= o) >= n/2, #(v >= o) >= n/2, and o is a present value (odd n) or the mean of two present values (even n)"""
    n = z3.Sum([z3.If(p, 1, 0) for p, v in vals])
    le = z3.Sum([z3.If(z3.And(p, v <= o), 1, 0) for p, v in vals])
    ge = z3.Sum([z3.If(z3.And(p, v >= o), 1, 0) for p, v in vals])
    isval = z3.Or(*[z3.And(p, v == o) for p, v in vals])
    ismean = z3.Or(*[z3.And(p1, p2, 2 * o == v1 + v2) for i, (p1, v1) in enumerate(vals) for (p2, v2) in vals[i:]])
    return z3.And(2 * le >= n, 2 * ge >= n, z3.If(n % 2 == 1, isval, ismean))


def _mk_map(S, EX, R, C, stripe, seed, name='d', tagged=False, invalid_upto=0):
    """disparity map: fully symbolic, or concrete pseudo-random with a symbolic column/row stripe (block-boundary shapes)"""
    rng = np.random.RandomState(seed)
    if stripe is None:
        d = S.fresh_array(name, (R, C), 'x4', scale=4, tagged=tagged, tags=(0, 1))
        m = S.fresh_array(name + 'm', (R, C), 'u2')
        shp = ((R, C), (R, C)); sym = [(r, c) for r in range(R) for c in range(C)]
    else:
        ax, lo, hi = stripe
        base = rng.randint(-8, 9, size=(R, C)).astype(np.float32) / 4
        mb = np.where(rng.rand(R, C) < 0.15, np.uint16(1), np.uint16(0)).astype(np.uint16)
        mb[:, :invalid_upto] = 1            # a fully invalid leading region (whole processing blocks without any valid pixel)
        d = S.SymArray(base, 'x4'); m = S.SymArray(mb, 'u2')
        sub = (R, hi - lo) if ax == 1 else (hi - lo, C)
        ds_ = S.fresh_array(name, sub, 'x4', scale=4, tagged=tagged, tags=(0, 1)); ms_ = S.fresh_array(name + 'm', sub, 'u2')
        if ax == 1:
            d._a[:, lo:hi] = ds_._a; m._a[:, lo:hi] = ms_._a
            sym = [(r, c) for r in range(R) for c in range(lo, hi)]
        else:
            d._a[lo:hi, :] = ds_._a; m._a[lo:hi, :] = ms_._a
            sym = [(r, c) for r in range(lo, hi) for c in range(C)]
        shp = (sub, sub)
    for e in d._a.flat:
        if isinstance(e, S.Sym):
            EX.assume(z3.And(e.t.val >= -64, e.t.val <= 64))
    for e in m._a.flat:
        if isinstance(e, S.Sym):
            EX.assume(z3.ULT(e.t, z3.BitVecVal(4096, 16)))
    return d, m, shp, sym


def median(R=3, C=3, fs=3, stripe=None, seed=0, cap=60, block=(), invalid_upto=0):
    import xarray as xr
    from vf import symnp as S, instr
    from vf.explore import EX, explore
    from vf.hutil import Collector
    from pandora.filter import AbstractFilter
    import pandora.filter.median as MF, pandora.common as CM
    col = Collector(cap_s=cap, block=list(block))
    info = {}
    S.MODE['exact'] = True
    rad = fs // 2

    def h():
        d, m, shp, sym = _mk_map(S, EX, R, C, stripe, seed, invalid_upto=invalid_upto)
        col.shapes = {'d': (shp[0], 'x4'), 'dm': (shp[1], 'u2')}
        d0 = d.copy(); m0 = m.copy()
        ds = xr.Dataset({"disparity_map": (["row", "col"], d), "validity_mask": (["row", "col"], m)}, coords={"row": np.arange(R), "col": np.arange(C)})
        f = AbstractFilter(cfg={"filter_method": "median", "filter_size": fs})
        ex = {'filter': 'median', 'R': R, 'C': C, 'fs': fs, 'stripe': stripe, 'seed': seed, 'invalid_upto': invalid_upto}
        try:
            f.filter_disparity(ds)
        except S.Unsupported:
            raise
        except Exception as e:      # noqa
            col.path_exception(e, label='p%d' % len(EX.trace), extra=ex); return
        do = ds["disparity_map"].data; mo = ds["validity_mask"].data
        props = []
        valid = lambda r, c: (S.lift(m0._a[r, c], 'u2') & INVALID) == 0
        # only pixels whose window touches the symbolic region can differ from a concrete run: check those symbolically, the rest concretely
        near = set((r, c) for (sr, sc) in sym for r in range(max(0, sr - rad), min(R, sr + rad + 1)) for c in range(max(0, sc - rad), min(C, sc + rad + 1)))
        conc_ok = True
        for r in range(R):
            for c in range(C):
                o = S.xlift(do._a[r, c]); i = S.xlift(d0._a[r, c])
                same = z3.And(o.tag == i.tag, o.val == i.val)
                if (r, c) not in near:
                    # fully concrete neighbourhood: numpy reference
                    win = np.array([[d0._a[rr, cc] if not (m0._a[rr, cc] & INVALID) else np.nan for cc in range(c - rad, c + rad + 1)] for rr in range(r - rad, r + rad + 1)], dtype=np.float32) \
                        if (rad <= r < R - rad and rad <= c < C - rad) else None
                    if win is None or (m0._a[r, c] & INVALID):
                        exp = d0._a[r, c]
                    else:
                        exp = np.float32(np.nanmedian(win))
                    if not (isinstance(do._a[r, c], S.Sym)) and np.float32(do._a[r, c]) == np.float32(exp):
                        continue
                    conc_ok = conc_ok and (not isinstance(do._a[r, c], S.Sym)) and False
                    props.append(("concrete-region[%d,%d]" % (r, c), z3.And(o.tag == 0, o.val == z3.RealVal(str(float(exp))))))
                    continue
                props.append(("validity-mask-unchanged[%d,%d]" % (r, c), S.lift(mo._a[r, c], 'u2') == S.lift(m0._a[r, c], 'u2')))
                if r < rad or r >= R - rad or c < rad or c >= C - rad:
                    props.append(("edge-band-untouched[%d,%d]" % (r, c), same)); continue
                vals = [(valid(rr, cc), S.xlift(d0._a[rr, cc]).val) for rr in range(r - rad, r + rad + 1) for cc in range(c - rad, c + rad + 1)]
                props.append(("invalid-untouched-valid-becomes-median-of-valid-window[%d,%d]" % (r, c),
                              z3.If(valid(r, c), z3.And(o.tag == 0, _rank_median(S, o.val, vals)), same)))
        col.check_path(props, label='p%d' % len(EX.trace), extra=ex, group=False,
                       witnesses=[] if fs == 1 else [("a-valid-interior-pixel-changes", z3.Or(*[z3.And(valid(r, c), S.xlift(do._a[r, c]).val != S.xlift(d0._a[r, c]).val)
                                                                             for (r, c) in near if rad <= r < R - rad and rad <= c < C - rad] or [z3.BoolVal(False)]))])
        info['fn'] = instr.fn_hash(MF.MedianFilter.filter_disparity, MF.MedianFilter.median_filter, CM.sliding_window)
    res, stats = explore(h, max_paths=32)
    return col.result(stats, functions=info.get('fn', {}),
                      bounds={'filter': 'median', 'map': [R, C], 'filter_size': fs, 'symbolic_stripe': stripe, 'disparities': 'multiples of 1/4, |d| <= 16',
                              'masks': 'any uint16 < 4096'})


def intervals(R=3, C=3, fs=3, regularization=True, cap=60, block=()):
    """median_for_intervals: same median on the interval-bound bands; regularisation only adds bit 11 (interval_regularization stubbed)"""
    import xarray as xr
    from vf import symnp as S, instr
    from vf.explore import EX, explore
    from vf.hutil import Collector
    from pandora.filter import AbstractFilter
    import pandora.filter.median_for_intervals as MI
    col = Collector(cap_s=cap, block=list(block))
    info = {}
    S.MODE['exact'] = True
    rad = fs // 2

    def h():
        d, m, shp, sym = _mk_map(S, EX, R, C, None, 0)
        cf = S.fresh_array('cf', (R, C, 3), 'x4', scale=4, tagged=True, tags=(0, 1))
        for e in cf._a.flat:
            EX.assume(z3.And(e.t.val >= -64, e.t.val <= 64))
        col.shapes = {'d': ((R, C), 'x4'), 'dm': ((R, C), 'u2'), 'cf': ((R, C, 3), 'x4')}
        names = ["confidence_from_ambiguity", "confidence_from_interval_bounds_inf", "confidence_from_interval_bounds_sup"]
        ds = xr.Dataset({"disparity_map": (["row", "col"], d), "validity_mask": (["row", "col"], m),
                         "confidence_measure": (["row", "col", "indicator"], cf)}, coords={"row": np.arange(R), "col": np.arange(C), "indicator": names})
        d0 = d.copy(); m0 = m.copy(); cf0 = cf.copy()
        stub = {}
        if regularization:
            rinf = S.fresh_array('rinf', (R, C), 'x4', scale=4); rsup = S.fresh_array('rsup', (R, C), 'x4', scale=4); rmask = S.fresh_array('rmask', (R, C), 'b')
            col.shapes.update({'rinf': ((R, C), 'x4'), 'rsup': ((R, C), 'x4'), 'rmask': ((R, C), 'b')})
            stub = {'inf': rinf, 'sup': rsup, 'mask': rmask}
            MI.interval_regularization = lambda *a, **k: (rinf.copy(), rsup.copy(), rmask.copy())
        f = AbstractFilter(cfg={"filter_method": "median_for_intervals", "filter_size": fs, "regularization": regularization})
        ex = {'filter': 'median_for_intervals', 'R': R, 'C': C, 'fs': fs, 'regularization': regularization}
        try:
            f.filter_disparity(ds)
        except S.Unsupported:
            raise
        except Exception as e:      # noqa
            col.path_exception(e, label='p%d' % len(EX.trace), extra=ex); return
        do = ds["disparity_map"].data; mo = ds["validity_mask"].data; co = ds["confidence_measure"].data
        props = [("indicator-names-kept", z3.BoolVal(list(ds.coords["indicator"].data) == names))]
        for r in range(R):
            for c in range(C):
                props.append(("disparity-untouched[%d,%d]" % (r, c), S.term_eq(do._a[r, c], d0._a[r, c], 'x4')))
                props.append(("other-band-untouched[%d,%d]" % (r, c), S.term_eq(co._a[r, c, 0], cf0._a[r, c, 0], 'x4')))
                mexp = m0._a[r, c].t if not regularization else z3.If(stub['mask']._a[r, c].t, m0._a[r, c].t | 2048, m0._a[r, c].t)
                props.append(("only-bit-11-may-be-raised[%d,%d]" % (r, c), S.lift(mo._a[r, c], 'u2') == mexp))
                for b, key in ((1, 'inf'), (2, 'sup')):
                    o = S.xlift(co._a[r, c, b])
                    if regularization:
                        e = S.xlift(stub[key]._a[r, c])
                        props.append(("regularised-bound-stored[%d,%d,%s]" % (r, c, key), z3.And(o.tag == e.tag, o.val == e.val)))
                        continue
                    i = S.xlift(cf0._a[r, c, b])
                    if r < rad or r >= R - rad or c < rad or c >= C - rad:
                        props.append(("bound-edge-untouched[%d,%d,%s]" % (r, c, key), z3.And(o.tag == i.tag, z3.Or(o.tag != 0, o.val == i.val)))); continue
                    vals = [(S.xlift(cf0._a[rr, cc, b]).tag == 0, S.xlift(cf0._a[rr, cc, b]).val) for rr in range(r - rad, r + rad + 1) for cc in range(c - rad, c + rad + 1)]
                    props.append(("bound-is-median-of-window[%d,%d,%s]" % (r, c, key),
                                  z3.If(i.tag == 0, z3.And(o.tag == 0, _rank_median(S, o.val, vals)), o.tag == 1)))
        col.check_path(props, label='p%d' % len(EX.trace), extra=ex, witnesses=[("reached", z3.BoolVal(True))], group=regularization)
        info['fn'] = instr.fn_hash(MI.MedianForIntervalsFilter.filter_disparity)
    res, stats = explore(h, max_paths=32)
    return col.result(stats, functions=info.get('fn', {}),
                      bounds={'filter': 'median_for_intervals', 'map': [R, C], 'filter_size': fs, 'regularization': regularization},
                      stubs=['interval_regularization = stub returning arbitrary (symbolic) bounds and mask when regularization is on'] if regularization else [])


def intervals_flag(cap=60, block=()):
    return intervals(3, 3, 3, True, cap, block)


def replay(cex):
    import xarray as xr
    from pandora.filter import AbstractFilter
    x = cex['extra']; inp = cex['inputs']; R, C, fs = x['R'], x['C'], x['fs']
    rad = fs // 2
    if x['filter'] == 'median':
        rng = np.random.RandomState(x['seed'])
        if x['stripe'] is None:
            d = np.array(inp['d'], np.float32).reshape(R, C); m = np.array(inp['dm'], np.uint16).reshape(R, C)
        else:
            ax, lo, hi = x['stripe']
            d = rng.randint(-8, 9, size=(R, C)).astype(np.float32) / 4
            m = np.where(rng.rand(R, C) < 0.15, np.uint16(1), np.uint16(0)).astype(np.uint16)
            m[:, :x.get('invalid_upto', 0)] = 1
            sub = (R, hi - lo) if ax == 1 else (hi - lo, C)
            if ax == 1:
                d[:, lo:hi] = np.array(inp['d'], np.float32).reshape(sub); m[:, lo:hi] = np.array(inp['dm'], np.uint16).reshape(sub)
            else:
                d[lo:hi, :] = np.array(inp['d'], np.float32).reshape(sub); m[lo:hi, :] = np.array(inp['dm'], np.uint16).reshape(sub)
        ds = xr.Dataset({"disparity_map": (["row", "col"], d.copy()), "validity_mask": (["row", "col"], m.copy())}, coords={"row": np.arange(R), "col": np.arange(C)})
        try:
            AbstractFilter(cfg={"filter_method": "median", "filter_size": fs}).filter_disparity(ds)
        except Exception as e:      # noqa
            return {'violates': True, 'detail': 'median filter raised %r' % (e,)}
        do = ds["disparity_map"].data; bad = []
        if not np.array_equal(ds["validity_mask"].data, m):
            bad.append('validity mask changed')
        md = d.copy(); md[(m & INVALID) != 0] = np.nan
        for r in range(R):
            for c in range(C):
                if (m[r, c] & INVALID) or r < rad or r >= R - rad or c < rad or c >= C - rad:
                    exp = d[r, c]
                else:
                    exp = np.float32(np.nanmedian(md[r - rad:r + rad + 1, c - rad:c + rad + 1]))
                if do[r, c] != exp and not (np.isnan(do[r, c]) and np.isnan(exp)):
                    bad.append('pixel (%d,%d) becomes %r, median of its valid window is %r' % (r, c, float(do[r, c]), float(exp)))
        return {'violates': bool(bad), 'detail': '; '.join(bad[:3])}
    if x['filter'] == 'bilateral':
        return replay_bilateral(cex)
    # median_for_intervals
    import pandora.filter.median_for_intervals as MI
    d = np.array(inp['d'], np.float32).reshape(R, C); m = np.array(inp['dm'], np.uint16).reshape(R, C); cf = np.array(inp['cf'], np.float32).reshape(R, C, 3)
    names = ["confidence_from_ambiguity", "confidence_from_interval_bounds_inf", "confidence_from_interval_bounds_sup"]
    ds = xr.Dataset({"disparity_map": (["row", "col"], d.copy()), "validity_mask": (["row", "col"], m.copy()), "confidence_measure": (["row", "col", "indicator"], cf.copy())},
                    coords={"row": np.arange(R), "col": np.arange(C), "indicator": names})
    reg = x['regularization']
    if reg:
        rinf = np.array(inp['rinf'], np.float32).reshape(R, C); rsup = np.array(inp['rsup'], np.float32).reshape(R, C); rmask = np.array(inp['rmask'], bool).reshape(R, C)
        MI.interval_regularization = lambda *a, **k: (rinf.copy(), rsup.copy(), rmask.copy())
    try:
        AbstractFilter(cfg={"filter_method": "median_for_intervals", "filter_size": fs, "regularization": reg}).filter_disparity(ds)
    except Exception as e:      # noqa
        return {'violates': True, 'detail': 'median_for_intervals raised %r' % (e,)}
    bad = []
    mexp = np.where(rmask, m | 2048, m) if reg else m
    if not np.array_equal(ds["validity_mask"].data, mexp):
        bad.append('validity mask %s -> %s, expected %s' % (m.tolist(), ds["validity_mask"].data.tolist(), mexp.tolist()))
    if not np.array_equal(ds["disparity_map"].data, d, equal_nan=True):
        bad.append('disparity map changed')
    if not np.array_equal(ds["confidence_measure"].data[:, :, 0], cf[:, :, 0], equal_nan=True):
        bad.append('another confidence band changed')
    if not reg:
        for b in (1, 2):
            for r in range(rad, R - rad):
                for c in range(rad, C - rad):
                    if np.isnan(cf[r, c, b]):
                        continue
                    import warnings
                    with warnings.catch_warnings():
                        warnings.simplefilter('ignore')
                        exp = np.float32(np.nanmedian(cf[r - rad:r + rad + 1, c - rad:c + rad + 1, b]))
                    if ds["confidence_measure"].data[r, c, b] != exp:
                        bad.append('bound band %d pixel (%d,%d): %r, median %r' % (b, r, c, float(ds["confidence_measure"].data[r, c, b]), float(exp)))
    return {'violates': bool(bad), 'detail': '; '.join(bad[:3])}


def bilateral(R=3, C=3, sigma_space=0.7, sigma_color=2.0, cap=120, block=()):
    """bilateral filter in the exact/real domain: exp is an uninterpreted positive function, weights and the weighted mean are
    rational arithmetic ("reals-for-floats"); decides mask / invalid / edge untouched and min <= result <= max of the valid window"""
    import xarray as xr
    from vf import symnp as S, instr
    from vf.explore import EX, explore
    from vf.hutil import Collector
    from pandora.filter import AbstractFilter
    import pandora.filter.bilateral as BF
    col = Collector(cap_s=cap, block=list(block))
    info = {}
    S.MODE['exact'] = True; S.REALS['div'] = True

    def h():
        d, m, shp, sym = _mk_map(S, EX, R, C, None, 0)
        col.shapes = {'d': ((R, C), 'x4'), 'dm': ((R, C), 'u2')}
        d0 = d.copy(); m0 = m.copy()
        ds = xr.Dataset({"disparity_map": (["row", "col"], d), "validity_mask": (["row", "col"], m)}, coords={"row": np.arange(R), "col": np.arange(C)})
        f = AbstractFilter(cfg={"filter_method": "bilateral", "sigma_space": sigma_space, "sigma_color": sigma_color}, image_shape=(R, C))
        win = min(R, C, int(3 * sigma_space + 1)); off = int(win / 2)
        ex = {'filter': 'bilateral', 'R': R, 'C': C, 'sigma_space': sigma_space, 'sigma_color': sigma_color}
        try:
            f.filter_disparity(ds)
        except S.Unsupported:
            raise
        except Exception as e:      # noqa
            col.path_exception(e, label='p%d' % len(EX.trace), extra=ex); return
        do = ds["disparity_map"].data; mo = ds["validity_mask"].data
        valid = lambda r, c: (S.lift(m0._a[r, c], 'u2') & INVALID) == 0
        props = []
        for r in range(R):
            for c in range(C):
                o = S.xlift(do._a[r, c]); i = S.xlift(d0._a[r, c])
                same = z3.And(o.tag == i.tag, o.val == i.val)
                props.append(("validity-mask-unchanged[%d,%d]" % (r, c), S.lift(mo._a[r, c], 'u2') == S.lift(m0._a[r, c], 'u2')))
                lo_r, lo_c = r - off, c - off
                if lo_r < 0 or lo_c < 0 or lo_r + win > R or lo_c + win > C:
                    props.append(("edge-band-untouched[%d,%d]" % (r, c), same)); continue
                # the weighted-mean value itself (min <= result <= max) is nonlinear real arithmetic that z3 does not decide
                # within the caps: outside the claim (stated in DESIGN.md / MANIFEST)
                props.append(("invalid-pixel-untouched-valid-pixel-finite[%d,%d]" % (r, c), z3.If(valid(r, c), o.tag == 0, same)))
        col.check_path(props, label='p%d' % len(EX.trace), extra=ex, group=False, witnesses=[("reached", z3.BoolVal(True))])
        info['fn'] = instr.fn_hash(BF.BilateralFilter.filter_disparity, BF.BilateralFilter.filter_bilateral, BF.BilateralFilter.bilateral_kernel)
    res, stats = explore(h, max_paths=8)
    return col.result(stats, functions=info.get('fn', {}),
                      bounds={'filter': 'bilateral', 'map': [R, C], 'sigma_space': sigma_space, 'sigma_color': sigma_color},
                      stubs=['np.exp = uninterpreted function with exp(x) > 0'], assumptions=['C10(bilateral): reals-for-floats (no float rounding of the weighted mean)'])


def replay_bilateral(cex):
    import xarray as xr
    from pandora.filter import AbstractFilter
    x = cex['extra']; inp = cex['inputs']; R, C = x['R'], x['C']
    d = np.array(inp['d'], np.float32).reshape(R, C); m = np.array(inp['dm'], np.uint16).reshape(R, C)
    ds = xr.Dataset({"disparity_map": (["row", "col"], d.copy()), "validity_mask": (["row", "col"], m.copy())}, coords={"row": np.arange(R), "col": np.arange(C)})
    try:
        AbstractFilter(cfg={"filter_method": "bilateral", "sigma_space": x['sigma_space'], "sigma_color": x['sigma_color']}, image_shape=(R, C)).filter_disparity(ds)
    except Exception as e:      # noqa
        return {'violates': True, 'detail': 'bilateral filter raised %r' % (e,)}
    win = min(R, C, int(3 * x['sigma_space'] + 1)); off = int(win / 2)
    do = ds["disparity_map"].data; bad = []
    if not np.array_equal(ds["validity_mask"].data, m):
        bad.append('validity mask changed')
    for r in range(R):
        for c in range(C):
            edge = r - off < 0 or c - off < 0 or r - off + win > R or c - off + win > C
            if (m[r, c] & INVALID) or edge:
                if do[r, c] != d[r, c]:
                    bad.append('pixel (%d,%d) (%s) changed %r -> %r' % (r, c, 'edge' if edge else 'invalid', float(d[r, c]), float(do[r, c])))
            elif not np.isfinite(do[r, c]):
                bad.append('valid pixel (%d,%d) became %r' % (r, c, float(do[r, c])))
    return {'violates': bool(bad), 'detail': '; '.join(bad[:3])}
