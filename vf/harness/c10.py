"""C10 harnesses: median / median_for_intervals / bilateral filters on symbolic disparity maps and validity masks."""
import numpy as np, z3

INVALID = 0b01111000011


def _rank_median(S, o, vals):
    """order-statistics characterisation of 'o is a median of vals' (vals: list of (present z3 Bool, Real value)); independent of the
    sorting network the engine uses to model numpy's nanmedian.  n = number of present values:
    #(v <= o) >= n/2, #(v >= o) >= n/2, and o is a present value (odd n) or the mean of two present values (even n)"""
    n = z3.Sum([z3.If(p, 1, 0) for p, v in vals])
    le = z3.Sum([z3.If(z3.And(p, v <= o), 1, 0) for p, v in vals])
    ge = z3.Sum([z3.If(z3.And(p, v >= o), 1, 0) for p, v in vals])
    isval = z3.Or(*[z3.And(p, v == o) for p, v in vals])
    ismean = z3.Or(*[z3.And(p1, p2, 2 * o == v1 + v2) for i, (p1, v1) in enumerate(vals) for (p2, v2) in vals[i:]])
    return z3.And(2 * le >= n, 2 * ge >= n, z3.If(n % 2 == 1, isval, ismean))


def _mk_map(S, EX, R, C, stripe, seed, name='d', tagged=False, invalid_upto=0):
    """disparity map: fully symbolic, or concrete pseudo-random with a symbolic column/row stripe (block-boundary shapes)"""
    rng = np.random.RandomState(seed)
    if stripe is None:
        d = S.fresh_array(name, (R, C), 'x4', scale=4, tagged=tagged, tags=(0, 1))
        m = S.fresh_array(name + 'm', (R, C), 'u2')
        shp = ((R, C), (R, C)); sym = [(r, c) for r in range(R) for c in range(C)]
    else:
        ax, lo, hi = stripe
        base = rng.randint(-8, 9, size=(R, C)).astype(np.float32) / 4
        mb = np.where(rng.rand(R, C) < 0.15, np.uint16(1), np.uint16(0)).astype(np.uint16)
        mb[:, :invalid_upto] = 1            # a fully invalid leading region (whole processing blocks without any valid pixel)
        d = S.SymArray(base, 'x4'); m = S.SymArray(mb, 'u2')
        sub = (R, hi - lo) if ax == 1 else (hi - lo, C)
        ds_ = S.fresh_array(name, sub, 'x4', scale=4, tagged=tagged, tags=(0, 1)); ms_ = S.fresh_array(name + 'm', sub, 'u2')
        if ax == 1:
            d._a[:, lo:hi] = ds_._a; m._a[:, lo:hi] = ms_._a
            sym = [(r, c) for r in range(R) for c in range(lo, hi)]
        else:
            d._a[lo:hi, :] = ds_._a; m._a[lo:hi, :] = ms_._a
            sym = [(r, c) for r in range(lo, hi) for c in range(C)]
        shp = (sub, sub)
    for e in d._a.flat:
        if isinstance(e, S.Sym):
            EX.assume(z3.And(e.t.val >= -64, e.t.val <= 64))
    for e in m._a.flat:
        if isinstance(e, S.Sym):
            EX.assume(z3.ULT(e.t, z3.BitVecVal(4096, 16)))
    return d, m, shp, sym


def median(R=3, C=3, fs=3, stripe=None, seed=0, cap=60, block=(), invalid_upto=0):
    import xarray as xr
    from vf import symnp as S, instr
    from vf.explore import EX, explore
    from vf.hutil import Collector
    from pandora.filter import AbstractFilter
    import pandora.filter.median as MF, pandora.common as CM
    col = Collector(cap_s=cap, block=list(block))
    info = {}
    S.MODE['exact'] = True
    rad = fs // 2

    def h():
        d, m, shp, sym = _mk_map(S, EX, R, C, stripe, seed, invalid_upto=invalid_upto)
        col.shapes = {'d': (shp[0], 'x4'), 'dm': (shp[1], 'u2')}
        d0 = d.copy(); m0 = m.copy()
        ds = xr.Dataset({"disparity_map": (["row", "col"], d), "validity_mask": (["row", "col"], m)}, coords={"row": np.arange(R), "col": np.arange(C)})
        f = AbstractFilter(cfg={"filter_method": "median", "filter_size": fs})
        ex = {'filter': 'median', 'R': R, 'C': C, 'fs': fs, 'stripe': stripe, 'seed': seed, 'invalid_upto': invalid_upto}
        try:
            f.filter_disparity(ds)
        except S.Unsupported:
            raise
        except Exception as e:      # noqa
            col.path_exception(e, label='p%d' % len(EX.trace), extra=ex); return
        do = ds["disparity_map"].data; mo = ds["validity_mask"].data
        props = []
        valid = lambda r, c: (S.lift(m0._a[r, c], 'u2') & INVALID) == 0
        # only pixels whose window touches the symbolic region can differ from a concrete run: check those symbolically, the rest concretely
        near = set((r, c) for (sr, sc) in sym for r in range(max(0, sr - rad), min(R, sr + rad + 1)) for c in range(max(0, sc - rad), min(C, sc + rad + 1)))
        conc_ok = True
        for r in range(R):
            for c in range(C):
                o = S.xlift(do._a[r, c]); i = S.xlift(d0._a[r, c])
                same = z3.And(o.tag == i.tag, o.val == i.val)
                if (r, c) not in near:
                    # fully concrete neighbourhood: numpy reference
                    win = np.array([[d0._a[rr, cc] if not (m0._a[rr, cc] & INVALID) else np.nan for cc in range(c - rad, c + rad + 1)] for rr in range(r - rad, r + rad + 1)], dtype=np.float32) \
                        if (rad <= r < R - rad and rad <= c < C - rad) else None
                    if win is None or (m0._a[r, c] & INVALID):
                        exp = d0._a[r, c]
                    else:
                        exp = np.float32(np.nanmedian(win))
                    if not (isinstance(do._a[r, c], S.Sym)) and np.float32(do._a[r, c]) == np.float32(exp):
                        continue
                    conc_ok = conc_ok and (not isinstance(do._a[r, c], S.Sym)) and False
                    props.append(("concrete-region[%d,%d]" % (r, c), z3.And(o.tag == 0, o.val == z3.RealVal(str(float(exp))))))
                    continue
                props.append(("validity-mask-unchanged[%d,%d]" % (r, c), S.lift(mo._a[r, c], 'u2') == S.lift(m0._a[r, c], 'u2')))
                if r < rad or r >= R - rad or c < rad or c >= C - rad:
                    props.append(("edge-band-untouched[%d,%d]" % (r, c), same)); continue
                vals = [(valid(rr, cc), S.xlift(d0._a[rr, cc]).val) for rr in range(r - rad, r + rad + 1) for cc in range(c - rad, c + rad + 1)]
                props.append(("invalid-untouched-valid-becomes-median-of-valid-window[%d,%d]" % (r, c),
                              z3.If(valid(r, c), z3.And(o.tag == 0, _rank_median(S, o.val, vals)), same)))
        col.check_path(props, label='p%d' % len(EX.trace), extra=ex, group=False,
                       witnesses=[] if fs == 1 else [("a-valid-interior-pixel-changes", z3.Or(*[z3.And(valid(r, c), S.xlift(do._a[r, c]).val != S.xlift(d0._a[r, c]).val)
                                                                             for (r, c) in near if rad <= r < R - rad and rad <= c < C - rad] or [z3.BoolVal(False)]))])
        info['fn'] = instr.fn_hash(MF.MedianFilter.filter_disparity, MF.MedianFilter.median_filter, CM.sliding_window)
    res, stats = explore(h, max_paths=32)
    return col.result(stats, functions=info.get('fn', {}),
                      bounds={'filter': 'median', 'map': [R, C], 'filter_size': fs, 'symbolic_stripe': stripe, 'disparities': 'multiples of 1/4, |d| <= 16',
                              'masks': 'any uint16 < 4096'})


def intervals(R=3, C=3, fs=3, regularization=True, cap=60, block=()):
    """median_for_intervals: same median on the interval-bound bands; regularisation only adds bit 11 (interval_regularization stubbed)"""
    import xarray as xr
    from vf import symnp as S, instr
    from vf.explore import EX, explore
    from vf.hutil import Collector
    from pandora.filter import AbstractFilter
    import pandora.filter.median_for_intervals as MI
    col = Collector(cap_s=cap, block=list(block))
    info = {}
    S.MODE['exact'] = True
    rad = fs // 2

    def h():
        d, m, shp, sym = _mk_map(S, EX, R, C, None, 0)
        cf = S.fresh_array('cf', (R, C, 3), 'x4', scale=4, tagged=True, tags=(0, 1))
        for e in cf._a.flat:
            EX.assume(z3.And(e.t.val >= -64, e.t.val <= 64))
        col.shapes = {'d': ((R, C), 'x4'), 'dm': ((R, C), 'u2'), 'cf': ((R, C, 3), 'x4')}
        names = ["confidence_from_ambiguity", "confidence_from_interval_bounds_inf", "confidence_from_interval_bounds_sup"]
        ds = xr.Dataset({"disparity_map": (["row", "col"], d), "validity_mask": (["row", "col"], m),
                         "confidence_measure": (["row", "col", "indicator"], cf)}, coords={"row": np.arange(R), "col": np.arange(C), "indicator": names})
        d0 = d.copy(); m0 = m.copy(); cf0 = cf.copy()
        stub = {}
        if regularization:
            rinf = S.fresh_array('rinf', (R, C), 'x4', scale=4); rsup = S.fresh_array('rsup', (R, C), 'x4', scale=4); rmask = S.fresh_array('rmask', (R, C), 'b')
            col.shapes.update({'rinf': ((R, C), 'x4'), 'rsup': ((R, C), 'x4'), 'rmask': ((R, C), 'b')})
            stub = {'inf': rinf, 'sup': rsup, 'mask': rmask}
            MI.interval_regularization = lambda *a, **k: (rinf.copy(), rsup.copy(), rmask.copy())
        f = AbstractFilter(cfg={"filter_method": "median_for_intervals", "filter_size": fs, "regularization": regularization})
        ex = {'filter': 'median_for_intervals', 'R': R, 'C': C, 'fs': fs, 'regularization': regularization}
        try:
            f.filter_disparity(ds)
        except S.Unsupported:
            raise
        except Exception as e:      # noqa
            col.path_exception(e, label='p%d' % len(EX.trace), extra=ex); return
        do = ds["disparity_map"].data; mo = ds["validity_mask"].data; co = ds["confidence_measure"].data
        props = [("indicator-names-kept", z3.BoolVal(list(ds.coords["indicator"].data) == names))]
        for r in range(R):
            for c in range(C):
                props.append(("disparity-untouched[%d,%d]" % (r, c), S.term_eq(do._a[r, c], d0._a[r, c], 'x4')))
                props.append(("other-band-untouched[%d,%d]" % (r, c), S.term_eq(co._a[r, c, 0], cf0._a[r, c, 0], 'x4')))
                mexp = m0._a[r, c].t if not regularization else z3.If(stub['mask']._a[r, c].t, m0._a[r, c].t | 2048, m0._a[r, c].t)
                props.append(("only-bit-11-may-be-raised[%d,%d]" % (r, c), S.lift(mo._a[r, c], 'u2') == mexp))
                for b, key in ((1, 'inf'), (2, 'sup')):
                    o = S.xlift(co._a[r, c, b])
                    if regularization:
                        e = S.xlift(stub[key]._a[r, c])
                        props.append(("regularised-bound-stored[%d,%d,%s]" % (r, c, key), z3.And(o.tag == e.tag, o.val == e.val)))
                        continue
                    i = S.xlift(cf0._a[r, c, b])
                    if r < rad or r >= R - rad or c < rad or c >= C - rad:
                        props.append(("bound-edge-untouched[%d,%d,%s]" % (r, c, key), z3.And(o.tag == i.tag, z3.Or(o.tag != 0, o.val == i.val)))); continue
                    vals = [(S.xlift(cf0._a[rr, cc, b]).tag == 0, S.xlift(cf0._a[rr, cc, b]).val) for rr in range(r - rad, r + rad + 1) for cc in range(c - rad, c + rad + 1)]
                    props.append(("bound-is-median-of-window[%d,%d,%s]" % (r, c, key),
                                  z3.If(i.tag == 0, z3.And(o.tag == 0, _rank_median(S, o.val, vals)), o.tag == 1)))
        col.check_path(props, label='p%d' % len(EX.trace), extra=ex, witnesses=[("reached", z3.BoolVal(True))], group=regularization)
        info['fn'] = instr.fn_hash(MI.MedianForIntervalsFilter.filter_disparity)
    res, stats = explore(h, max_paths=32)
    return col.result(stats, functions=info.get('fn', {}),
                      bounds={'filter': 'median_for_intervals', 'map': [R, C], 'filter_size': fs, 'regularization': regularization},
                      stubs=['interval_regularization = stub returning arbitrary (symbolic) bounds and mask when regularization is on'] if regularization else [])


def intervals_flag(cap=60, block=()):
    return intervals(3, 3, 3, True, cap, block)


def replay(cex):
    import xarray as xr
    from pandora.filter import AbstractFilter
    x = cex['extra']; inp = cex['inputs']
    if x.get('filter') == 'bilateral_blocks':
        return replay_bilateral_blocks(cex)
    if x.get('filter') == 'bilateral':
        return replay_bilateral(cex)
    R, C, fs = x['R'], x['C'], x['fs']
    rad = fs // 2
    if x['filter'] == 'median':
        rng = np.random.RandomState(x['seed'])
        if x['stripe'] is None:
            d = np.array(inp['d'], np.float32).reshape(R, C); m = np.array(inp['dm'], np.uint16).reshape(R, C)
        else:
            ax, lo, hi = x['stripe']
            d = rng.randint(-8, 9, size=(R, C)).astype(np.float32) / 4
            m = np.where(rng.rand(R, C) < 0.15, np.uint16(1), np.uint16(0)).astype(np.uint16)
            m[:, :x.get('invalid_upto', 0)] = 1
            sub = (R, hi - lo) if ax == 1 else (hi - lo, C)
            if ax == 1:
                d[:, lo:hi] = np.array(inp['d'], np.float32).reshape(sub); m[:, lo:hi] = np.array(inp['dm'], np.uint16).reshape(sub)
            else:
                d[lo:hi, :] = np.array(inp['d'], np.float32).reshape(sub); m[lo:hi, :] = np.array(inp['dm'], np.uint16).reshape(sub)
        ds = xr.Dataset({"disparity_map": (["row", "col"], d.copy()), "validity_mask": (["row", "col"], m.copy())}, coords={"row": np.arange(R), "col": np.arange(C)})
        try:
            AbstractFilter(cfg={"filter_method": "median", "filter_size": fs}).filter_disparity(ds)
        except Exception as e:      # noqa
            return {'violates': True, 'detail': 'median filter raised %r' % (e,)}
        do = ds["disparity_map"].data; bad = []
        if not np.array_equal(ds["validity_mask"].data, m):
            bad.append('validity mask changed')
        md = d.copy(); md[(m & INVALID) != 0] = np.nan
        for r in range(R):
            for c in range(C):
                if (m[r, c] & INVALID) or r < rad or r >= R - rad or c < rad or c >= C - rad:
                    exp = d[r, c]
                else:
                    exp = np.float32(np.nanmedian(md[r - rad:r + rad + 1, c - rad:c + rad + 1]))
                if do[r, c] != exp and not (np.isnan(do[r, c]) and np.isnan(exp)):
                    bad.append('pixel (%d,%d) becomes %r, median of its valid window is %r' % (r, c, float(do[r, c]), float(exp)))
        return {'violates': bool(bad), 'detail': '; '.join(bad[:3])}
    if x['filter'] == 'bilateral':
        return replay_bilateral(cex)
    # median_for_intervals
    import pandora.filter.median_for_intervals as MI
    d = np.array(inp['d'], np.float32).reshape(R, C); m = np.array(inp['dm'], np.uint16).reshape(R, C); cf = np.array(inp['cf'], np.float32).reshape(R, C, 3)
    names = ["confidence_from_ambiguity", "confidence_from_interval_bounds_inf", "confidence_from_interval_bounds_sup"]
    ds = xr.Dataset({"disparity_map": (["row", "col"], d.copy()), "validity_mask": (["row", "col"], m.copy()), "confidence_measure": (["row", "col", "indicator"], cf.copy())},
                    coords={"row": np.arange(R), "col": np.arange(C), "indicator": names})
    reg = x['regularization']
    if reg:
        rinf = np.array(inp['rinf'], np.float32).reshape(R, C); rsup = np.array(inp['rsup'], np.float32).reshape(R, C); rmask = np.array(inp['rmask'], bool).reshape(R, C)
        MI.interval_regularization = lambda *a, **k: (rinf.copy(), rsup.copy(), rmask.copy())
    try:
        AbstractFilter(cfg={"filter_method": "median_for_intervals", "filter_size": fs, "regularization": reg}).filter_disparity(ds)
    except Exception as e:      # noqa
        return {'violates': True, 'detail': 'median_for_intervals raised %r' % (e,)}
    bad = []
    mexp = np.where(rmask, m | 2048, m) if reg else m
    if not np.array_equal(ds["validity_mask"].data, mexp):
        bad.append('validity mask %s -> %s, expected %s' % (m.tolist(), ds["validity_mask"].data.tolist(), mexp.tolist()))
    if not np.array_equal(ds["disparity_map"].data, d, equal_nan=True):
        bad.append('disparity map changed')
    if not np.array_equal(ds["confidence_measure"].data[:, :, 0], cf[:, :, 0], equal_nan=True):
        bad.append('another confidence band changed')
    if not reg:
        for b in (1, 2):
            for r in range(rad, R - rad):
                for c in range(rad, C - rad):
                    if np.isnan(cf[r, c, b]):
                        continue
                    import warnings
                    with warnings.catch_warnings():
                        warnings.simplefilter('ignore')
                        exp = np.float32(np.nanmedian(cf[r - rad:r + rad + 1, c - rad:c + rad + 1, b]))
                    if ds["confidence_measure"].data[r, c, b] != exp:
                        bad.append('bound band %d pixel (%d,%d): %r, median %r' % (b, r, c, float(ds["confidence_measure"].data[r, c, b]), float(exp)))
    return {'violates': bool(bad), 'detail': '; '.join(bad[:3])}


def _uf_atoms(t, name):
    out = []; seen = set()

    def walk(x):
        if x.get_id() in seen:
            return
        seen.add(x.get_id())
        if z3.is_app(x) and x.decl().name() == name:
            out.append(x)
        for ch in x.children():
            walk(ch)
    walk(t)
    return out


def _valid(EX, claim, ms=20000):
    """lemma a == b between two real terms: by normalisation (sum of monomials) first, then by the solver over the reals"""
    if z3.is_eq(claim):
        a_, b_ = claim.children()
        dif = z3.simplify(a_ - b_, som=True)
        if z3.is_rational_value(dif):
            return dif.as_fraction() == 0
    ints = []; seen = set()

    def walk(x):
        if x.get_id() in seen:
            return
        seen.add(x.get_id())
        if z3.is_app(x) and x.decl().kind() == z3.Z3_OP_TO_REAL:
            ints.append(x); return
        for ch in x.children():
            walk(ch)
    walk(claim)
    c2 = z3.substitute(claim, *[(t, z3.Real('L_abs_%d' % i)) for i, t in enumerate(ints)]) if ints else claim
    s = z3.SolverFor('QF_NRA'); s.set('timeout', ms)
    s.add(z3.Not(c2))
    try:
        return str(s.check()) == 'unsat'
    except z3.Z3Exception:
        return False


def _valid_abstract(EX, claim, ms):
    """validity of a real-arithmetic claim in which the uninterpreted exp atoms are replaced by fresh positive reals and the integer-
    valued samples by fresh reals (a superset of the original models: valid there => valid here); pure QF_NRA -> nlsat"""
    atoms = _uf_atoms(claim, 'exp_uf')
    sub = [(a_, z3.Real('E_abs_%d' % i)) for i, a_ in enumerate(atoms)]
    c2 = z3.substitute(claim, *sub) if sub else claim
    ints = []; seen = set()

    def walk(x):
        if x.get_id() in seen:
            return
        seen.add(x.get_id())
        if z3.is_app(x) and x.decl().kind() == z3.Z3_OP_TO_REAL:
            ints.append(x); return
        for ch in x.children():
            walk(ch)
    walk(c2)
    sub2 = [(t, z3.Real('D_abs_%d' % i)) for i, t in enumerate(ints)]
    c3 = z3.substitute(c2, *sub2) if sub2 else c2
    if _uf_atoms(c3, 'exp_uf'):
        return False
    s_ = z3.SolverFor('QF_NRA'); s_.set('timeout', int(ms))
    for _, v in sub:
        s_.add(v > 0)
    s_.add(z3.Not(c3))
    try:
        return str(s_.check()) == 'unsat'
    except z3.Z3Exception:
        return False


def bilateral(R=3, C=3, sigma_space=0.7, sigma_color=2.0, cap=120, block=(), value=False, conc_mask=None, seed=0, pre_sigma=None):
    """bilateral filter in the exact/real domain: exp is an uninterpreted positive function, weights and the weighted mean are
    rational arithmetic ("reals-for-floats"); decides mask / invalid / edge untouched and min <= result <= max of the valid window"""
    import xarray as xr
    from vf import symnp as S, instr
    from vf.explore import EX, explore
    from vf.hutil import Collector
    from pandora.filter import AbstractFilter
    import pandora.filter.bilateral as BF
    col = Collector(cap_s=cap, block=list(block))
    info = {}
    S.MODE['exact'] = True; S.REALS['div'] = True

    def h():
        d, m, shp, sym = _mk_map(S, EX, R, C, None, 0)
        col.shapes = {'d': ((R, C), 'x4'), 'dm': ((R, C), 'u2')}
        if conc_mask is not None:
            # value jobs: the validity mask is concrete (pattern given or pseudo-random), the disparities stay symbolic
            mb = np.array(conc_mask, np.uint16).reshape(R, C) if conc_mask != 'random' else np.where(np.random.RandomState(seed).rand(R, C) < 0.25, np.uint16(64), np.uint16(0)).astype(np.uint16)
            for (r_, c_), e_ in np.ndenumerate(m._a):
                EX.assume(e_.t == int(mb[r_, c_]))
        d0 = d.copy(); m0 = m.copy()
        ds = xr.Dataset({"disparity_map": (["row", "col"], d), "validity_mask": (["row", "col"], m)}, coords={"row": np.arange(R), "col": np.arange(C)})
        if pre_sigma is not None:
            # history: another bilateral filter (other sigma_space, same window width) ran before in this process on some other map
            pm = S.SymArray(np.arange(R * C, dtype=np.float32).reshape(R, C), 'x4')
            pds = xr.Dataset({"disparity_map": (["row", "col"], pm), "validity_mask": (["row", "col"], S.SymArray(np.zeros((R, C), np.uint16), 'u2'))},
                             coords={"row": np.arange(R), "col": np.arange(C)})
            AbstractFilter(cfg={"filter_method": "bilateral", "sigma_space": pre_sigma, "sigma_color": sigma_color}, image_shape=(R, C)).filter_disparity(pds)
        f = AbstractFilter(cfg={"filter_method": "bilateral", "sigma_space": sigma_space, "sigma_color": sigma_color}, image_shape=(R, C))
        win = min(R, C, int(3 * sigma_space + 1)); off = int(win / 2)
        from fractions import Fraction
        SC = z3.RealVal(str(Fraction(float(sigma_color))))
        # spatial Gaussian from the documentation (concrete): exp(-(dist/sigma_space)^2/2) / (sigma_space sqrt(2 pi))
        GS = np.array([[np.exp(-((np.sqrt((i - win // 2) ** 2 + (j - win // 2) ** 2) / sigma_space) ** 2) * 0.5) / (sigma_space * np.sqrt(2 * np.pi))
                        for j in range(win)] for i in range(win)])
        ex = {'filter': 'bilateral', 'R': R, 'C': C, 'sigma_space': sigma_space, 'sigma_color': sigma_color, 'pre_sigma': pre_sigma}
        try:
            f.filter_disparity(ds)
        except S.Unsupported:
            raise
        except Exception as e:      # noqa
            col.path_exception(e, label='p%d' % len(EX.trace), extra=ex); return
        do = ds["disparity_map"].data; mo = ds["validity_mask"].data
        if conc_mask is not None:
            valid = lambda r, c: z3.BoolVal(not (int(mb[r, c]) & INVALID))       # concrete pattern (pinned above)
        else:
            valid = lambda r, c: (S.lift(m0._a[r, c], 'u2') & INVALID) == 0
        props = []
        for r in range(R):
            for c in range(C):
                o = S.xlift(do._a[r, c]); i = S.xlift(d0._a[r, c])
                same = z3.And(o.tag == i.tag, o.val == i.val)
                props.append(("validity-mask-unchanged[%d,%d]" % (r, c), S.lift(mo._a[r, c], 'u2') == S.lift(m0._a[r, c], 'u2')))
                lo_r, lo_c = r - off, c - off
                if lo_r < 0 or lo_c < 0 or lo_r + win > R or lo_c + win > C:
                    props.append(("edge-band-untouched[%d,%d]" % (r, c), same)); continue
                props.append(("invalid-pixel-untouched-valid-pixel-finite[%d,%d]" % (r, c), z3.If(valid(r, c), o.tag == 0, same)))
                if not value:
                    continue
                # value: result * sum(w_i) == sum(w_i d_i) over the valid window pixels, w_i = spatial Gaussian(i) * exp(-((d_i - d_c)/sigma_color)^2 / 2)
                # (the normalisation constants of the Gaussians cancel); exp is the engine's uninterpreted function: the atoms the code
                # built are matched to the documented arguments by a solver lemma (argument equality), then congruence does the rest
                if conc_mask is not None:
                    oval = z3.simplify(z3.substitute(o.val, *[(e_.t, z3.BitVecVal(int(mb[p_]), 16)) for p_, e_ in np.ndenumerate(m0._a) if isinstance(e_, S.Sym)]))
                else:
                    oval = o.val
                atoms = _uf_atoms(oval, 'exp_uf')
                A = z3.RealVal(0); B = z3.RealVal(0)
                dc = S.xlift(d0._a[r, c]).val
                for dr in range(-off, win - off):
                    for dcc in range(-off, win - off):
                        di = S.xlift(d0._a[r + dr, c + dcc]).val
                        x_ = (di - dc) / SC
                        arg = -(x_ * x_) * z3.RealVal('1/2')
                        E = None
                        for a_ in atoms:
                            if _valid(EX, a_.arg(0) == arg, 5000):
                                E = a_; break
                        if E is None:
                            E = S._EXP['f'](z3.simplify(arg)); EX.assume(E > 0)
                        g = z3.RealVal(str(Fraction(float(GS[dr + off, dcc + off]))))
                        vi = valid(r + dr, c + dcc)
                        if z3.is_false(vi):
                            continue
                        A = A + z3.If(vi, g * E * di, 0); B = B + z3.If(vi, g * E, 0)
                claim = z3.Implies(valid(r, c), oval * B == A)
                props.append(("valid-pixel-is-the-bilateral-weighted-mean-of-its-valid-window[%d,%d]" % (r, c),
                              z3.BoolVal(True) if _valid_abstract(EX, claim, cap * 500) else claim))
        rngp = np.random.RandomState(seed + 13)
        pins = [z3.And(*[e_.t.val == z3.RealVal(int(rngp.randint(-8, 9))) / 4 for e_ in d0._a.flat if isinstance(e_, S.Sym)]) for _ in range(2)] if value else []
        col.check_path(props, label='p%d' % len(EX.trace), extra=ex, group=False, witnesses=[("reached", z3.BoolVal(True))], pins=pins)
        info['fn'] = instr.fn_hash(BF.BilateralFilter.filter_disparity, BF.BilateralFilter.filter_bilateral, BF.BilateralFilter.bilateral_kernel)
    res, stats = explore(h, max_paths=8)
    return col.result(stats, functions=info.get('fn', {}),
                      bounds={'filter': 'bilateral', 'map': [R, C], 'sigma_space': sigma_space, 'sigma_color': sigma_color},
                      stubs=['np.exp = uninterpreted function with exp(x) > 0'], assumptions=['C10(bilateral): reals-for-floats (no float rounding of the weighted mean)'])


def bilateral_blocks(axis=1, N=53, lo=47, hi=53, sigma_space=0.7, sigma_color=2.0, seed=0, cap=120, block=(), invalid_upto=0):
    """independence from the internal 50-pixel processing blocks: the filter runs on a map that straddles a block boundary (symbolic
    stripe across it, concrete elsewhere) and on a crop of the same map that fits in one block; interior pixels must agree"""
    import xarray as xr
    from vf import symnp as S, instr
    from vf.explore import EX, explore
    from vf.hutil import Collector
    from pandora.filter import AbstractFilter
    import pandora.filter.bilateral as BF
    col = Collector(cap_s=cap, block=list(block))
    info = {}
    S.MODE['exact'] = True; S.REALS['div'] = True
    R, C = (3, N) if axis == 1 else (N, 3)

    def h():
        d, m, shp, sym = _mk_map(S, EX, R, C, (axis, lo, hi), seed)
        col.shapes = {'d': (shp[0], 'x4'), 'dm': (shp[1], 'u2')}
        if invalid_upto:        # whole leading processing blocks without any valid pixel
            if axis == 1:
                m._a[:, :invalid_upto] = np.uint16(1)
            else:
                m._a[:invalid_upto, :] = np.uint16(1)
        # masks of the stripe: concrete too (pseudo-random), only the disparities of the stripe are symbolic
        rng = np.random.RandomState(seed + 1)
        for e_ in m._a.flat:
            if isinstance(e_, S.Sym):
                EX.assume(e_.t == int(rng.choice([0, 0, 0, 64])))
        win = min(R, C, int(3 * sigma_space + 1)); off = int(win / 2)
        a0 = max(0, lo - 3 - off); a1 = min(N, hi + 3 + off)
        ex = {'filter': 'bilateral_blocks', 'axis': axis, 'N': N, 'lo': lo, 'hi': hi, 'sigma_space': sigma_space, 'sigma_color': sigma_color, 'seed': seed, 'crop': [a0, a1], 'invalid_upto': invalid_upto}

        def run(dd, mm, shape):
            ds = xr.Dataset({"disparity_map": (["row", "col"], dd), "validity_mask": (["row", "col"], mm)}, coords={"row": np.arange(shape[0]), "col": np.arange(shape[1])})
            AbstractFilter(cfg={"filter_method": "bilateral", "sigma_space": sigma_space, "sigma_color": sigma_color}, image_shape=shape).filter_disparity(ds)
            return ds["disparity_map"].data
        try:
            ow = run(d.copy(), m.copy(), (R, C))
            if axis == 1:
                oc = run(S.SymArray(d._a[:, a0:a1].copy(), 'x4'), S.SymArray(m._a[:, a0:a1].copy(), 'u2'), (R, a1 - a0))
            else:
                oc = run(S.SymArray(d._a[a0:a1, :].copy(), 'x4'), S.SymArray(m._a[a0:a1, :].copy(), 'u2'), (a1 - a0, C))
        except S.Unsupported:
            raise
        except Exception as e:      # noqa
            col.path_exception(e, label='p%d' % len(EX.trace), extra=ex); return
        props = []
        for k in range(a0 + off, a1 - off):
            for j in range(3):
                pw = (j, k) if axis == 1 else (k, j); pc = (j, k - a0) if axis == 1 else (k - a0, j)
                x_, y_ = ow._a[pw], oc._a[pc]
                if isinstance(x_, S.Sym) or isinstance(y_, S.Sym):
                    props.append(("same-value-as-in-a-single-block-crop[%d,%d]" % pw, S.term_eq(x_, y_, 'x4')))
                else:
                    same = bool(x_ == y_ or (x_ != x_ and y_ != y_))
                    props.append(("same-value-as-in-a-single-block-crop[%d,%d]" % pw, z3.BoolVal(same)))
        rngp = np.random.RandomState(seed + 7)
        symd = [e_ for e_ in d._a.flat if isinstance(e_, S.Sym)]
        pins = [z3.And(*[e_.t.val == z3.RealVal(int(rngp.randint(-8, 9))) / 4 for e_ in symd]) for _ in range(2)]
        col.check_path(props, label='p%d' % len(EX.trace), extra=ex, witnesses=[("pinned-stripe-satisfies-the-path-condition", pins[0])], pins=pins)
        info['fn'] = instr.fn_hash(BF.BilateralFilter.filter_bilateral, BF.BilateralFilter.bilateral_kernel)
    res, stats = explore(h, max_paths=8)
    return col.result(stats, functions=info.get('fn', {}), bounds={'filter': 'bilateral', 'map': [R, C], 'symbolic stripe': [lo, hi], 'axis': axis},
                      stubs=['np.exp = uninterpreted function with exp(x) > 0'])


def replay_bilateral_blocks(cex):
    import xarray as xr
    from pandora.filter import AbstractFilter
    x = cex['extra']; inp = cex['inputs']
    axis, N, lo, hi, seed = x['axis'], x['N'], x['lo'], x['hi'], x['seed']
    R, C = (3, N) if axis == 1 else (N, 3)
    rng = np.random.RandomState(seed)
    base = rng.randint(-8, 9, size=(R, C)).astype(np.float32) / 4
    mb = np.where(rng.rand(R, C) < 0.15, np.uint16(1), np.uint16(0)).astype(np.uint16)
    sub = (R, hi - lo) if axis == 1 else (hi - lo, C)
    dv = np.array(inp['d'], np.float32).reshape(sub)
    rng2 = np.random.RandomState(seed + 1)
    mv = np.array([int(rng2.choice([0, 0, 0, 64])) for _ in range(sub[0] * sub[1])], np.uint16).reshape(sub)
    if inp.get('dm') is not None:
        mv = np.array(inp['dm'], np.uint16).reshape(sub)
    if x.get('invalid_upto'):
        if axis == 1:
            mb[:, :x['invalid_upto']] = 1
        else:
            mb[:x['invalid_upto'], :] = 1
    if axis == 1:
        base[:, lo:hi] = dv; mb[:, lo:hi] = mv
    else:
        base[lo:hi, :] = dv; mb[lo:hi, :] = mv
    a0, a1 = x['crop']
    win = min(R, C, int(3 * x['sigma_space'] + 1)); off = int(win / 2)

    def run(dd, mm):
        ds = xr.Dataset({"disparity_map": (["row", "col"], dd.copy()), "validity_mask": (["row", "col"], mm.copy())}, coords={"row": np.arange(dd.shape[0]), "col": np.arange(dd.shape[1])})
        AbstractFilter(cfg={"filter_method": "bilateral", "sigma_space": x['sigma_space'], "sigma_color": x['sigma_color']}, image_shape=dd.shape).filter_disparity(ds)
        return ds["disparity_map"].data
    try:
        ow = run(base, mb)
        oc = run(base[:, a0:a1], mb[:, a0:a1]) if axis == 1 else run(base[a0:a1, :], mb[a0:a1, :])
    except Exception as e:      # noqa
        return {'violates': True, 'detail': 'bilateral filter raised %r' % (e,)}
    for k in range(a0 + off, a1 - off):
        for j in range(3):
            pw = (j, k) if axis == 1 else (k, j); pc = (j, k - a0) if axis == 1 else (k - a0, j)
            a_, b_ = float(ow[pw]), float(oc[pc])
            if not (a_ == b_ or (a_ != a_ and b_ != b_)) and abs(a_ - b_) > 1e-5:
                return {'violates': True, 'detail': 'pixel %s of the %dx%d map gets %r, the same pixel in the single-block crop [%d:%d] gets %r' % (pw, R, C, a_, a0, a1, b_)}
    return {'violates': False, 'detail': 'whole map and crop agree'}


def replay_bilateral(cex):
    import xarray as xr
    from pandora.filter import AbstractFilter
    x = cex['extra']; inp = cex['inputs']; R, C = x['R'], x['C']
    d = np.array(inp['d'], np.float32).reshape(R, C); m = np.array(inp['dm'], np.uint16).reshape(R, C)
    ds = xr.Dataset({"disparity_map": (["row", "col"], d.copy()), "validity_mask": (["row", "col"], m.copy())}, coords={"row": np.arange(R), "col": np.arange(C)})
    try:
        if x.get('pre_sigma') is not None:
            pm = np.arange(R * C, dtype=np.float32).reshape(R, C)
            pds = xr.Dataset({"disparity_map": (["row", "col"], pm), "validity_mask": (["row", "col"], np.zeros((R, C), np.uint16))}, coords={"row": np.arange(R), "col": np.arange(C)})
            AbstractFilter(cfg={"filter_method": "bilateral", "sigma_space": x['pre_sigma'], "sigma_color": x['sigma_color']}, image_shape=(R, C)).filter_disparity(pds)
        AbstractFilter(cfg={"filter_method": "bilateral", "sigma_space": x['sigma_space'], "sigma_color": x['sigma_color']}, image_shape=(R, C)).filter_disparity(ds)
    except Exception as e:      # noqa
        return {'violates': True, 'detail': 'bilateral filter raised %r' % (e,)}
    win = min(R, C, int(3 * x['sigma_space'] + 1)); off = int(win / 2)
    do = ds["disparity_map"].data; bad = []
    if not np.array_equal(ds["validity_mask"].data, m):
        bad.append('validity mask changed')
    for r in range(R):
        for c in range(C):
            edge = r - off < 0 or c - off < 0 or r - off + win > R or c - off + win > C
            if (m[r, c] & INVALID) or edge:
                if do[r, c] != d[r, c]:
                    bad.append('pixel (%d,%d) (%s) changed %r -> %r' % (r, c, 'edge' if edge else 'invalid', float(d[r, c]), float(do[r, c])))
            elif not np.isfinite(do[r, c]):
                bad.append('valid pixel (%d,%d) became %r' % (r, c, float(do[r, c])))
            else:
                # documented weighted mean over the valid window pixels
                num = 0.0; den = 0.0
                for dr in range(-off, win - off):
                    for dc in range(-off, win - off):
                        if m[r + dr, c + dc] & INVALID:
                            continue
                        di = float(d[r + dr, c + dc])
                        w = np.exp(-((np.sqrt(dr * dr + dc * dc) / x['sigma_space']) ** 2) * 0.5) * np.exp(-(((di - float(d[r, c])) / x['sigma_color']) ** 2) * 0.5)
                        num += w * di; den += w
                if abs(float(do[r, c]) - num / den) > 1e-4 * max(1.0, abs(num / den)):
                    bad.append('valid pixel (%d,%d) becomes %r, the bilateral weighted mean of its valid window is %r (map %s, mask %s)' % (r, c, float(do[r, c]), num / den, d.tolist(), m.tolist()))
    return {'violates': bool(bad), 'detail': '; '.join(bad[:3])}
