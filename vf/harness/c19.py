"""C19: saved products equal the computed ones and the saved configuration replays.

save_results / write_data_array run on symbolic products with a recording writer stub (what GDAL puts on disk is FFI, outside
the claim); the configuration path of pandora.main is exercised end to end on small real GeoTIFFs (concrete witnesses:
cfg/config.json is loadable, accepted when fed back, and reproduces the same rasters)."""
import os, json, copy, shutil, tempfile
import numpy as np, z3


class Rec:
    """recording stand-in for a rasterio dataset opened in 'w+' mode"""
    def __init__(self, log, filename, **kw):
        self.log = log; self.entry = {'file': os.path.basename(filename), 'kw': kw, 'bands': {}, 'descriptions': None}
        log.append(self.entry)

    def __enter__(self):
        return self

    def __exit__(self, *a):
        return False

    def write(self, arr, band):
        self.entry['bands'][band] = arr

    @property
    def descriptions(self):
        return self.entry['descriptions']

    @descriptions.setter
    def descriptions(self, v):
        self.entry['descriptions'] = list(v)


def save(R=2, C=2, K=2, with_right=True, right_conf=True, cap=30, block=()):
    import xarray as xr
    from vf import symnp as S, instr
    from vf.explore import EX, explore
    from vf.hutil import Collector
    import pandora.common as CM
    col = Collector(cap_s=cap)
    info = {}

    def mk(name, conf):
        d = S.fresh_array(name + 'd', (R, C), 'f4'); m = S.fresh_array(name + 'm', (R, C), 'u2')
        col.shapes[name + 'd'] = ((R, C), 'f4'); col.shapes[name + 'm'] = ((R, C), 'u2')
        ds = xr.Dataset({"disparity_map": (["row", "col"], d), "validity_mask": (["row", "col"], m)}, coords={"row": np.arange(R), "col": np.arange(C)})
        cf = None
        if conf:
            cf = S.fresh_array(name + 'c', (R, C, K), 'f4'); col.shapes[name + 'c'] = ((R, C, K), 'f4')
            ds["confidence_measure"] = xr.DataArray(cf, dims=["row", "col", "indicator"], coords={"indicator": ["%s_ind%d" % (name, k) for k in range(K)]})
        ds.attrs = {"crs": Crs(name), "transform": "T-" + name}
        return ds, d, m, cf

    def h():
        col.shapes = {}
        left, ld, lm, lc = mk('l', K > 0)
        if with_right:
            right, rd, rm, rc = mk('r', right_conf and K > 0)
        else:
            right = xr.Dataset()
        log = []
        CM.rasterio_open = lambda filename, **kw: Rec(log, filename, **kw)
        CM.mkdir_p = lambda p: None
        CM.save_results(left, right, '/out')
        files = {e['file']: e for e in log}
        props = []
        want = ['left_disparity.tif', 'left_validity_mask.tif'] + (['left_confidence_measure.tif'] if lc is not None else [])
        if with_right:
            want += ['right_disparity.tif', 'right_validity_mask.tif'] + (['right_confidence_measure.tif'] if rc is not None else [])
        props.append(("files-written", z3.BoolVal(sorted(files) == sorted(want) and len(log) == len(want))))

        def same(arr, sym, kind):
            return z3.And(*[S.term_eq(arr._a[i] if isinstance(arr, S.SymArray) else arr[i], sym._a[i], kind) for i in np.ndindex(*sym.shape)]) \
                if tuple(arr.shape) == tuple(sym.shape) else z3.BoolVal(False)
        for side, d, m, cf in (('left', ld, lm, lc),) + ((('right', rd, rm, rc),) if with_right else ()):
            tag = side[0]
            e = files.get(side + '_disparity.tif')
            if e:
                props.append((side + "-disparity-values-dtype-georeferencing", z3.And(
                    same(e['bands'].get(1), d, 'f4'), z3.BoolVal(str(e['kw'].get('dtype')) == 'float32' and e['kw'].get('count') == 1 and
                                                                 e['kw'].get('width') == C and e['kw'].get('height') == R and
                                                                 e['kw'].get('crs') == Crs(tag) and e['kw'].get('transform') == "T-" + tag))))
            e = files.get(side + '_validity_mask.tif')
            if e:
                props.append((side + "-validity-mask-values-dtype-georeferencing", z3.And(
                    same(e['bands'].get(1), m, 'u2'), z3.BoolVal(str(e['kw'].get('dtype')) == 'uint16' and e['kw'].get('crs') == Crs(tag) and e['kw'].get('transform') == "T-" + tag))))
            e = files.get(side + '_confidence_measure.tif')
            if e and cf is not None:
                okb = [same(e['bands'].get(k + 1), cf[:, :, k], 'f4') if (k + 1) in e['bands'] else z3.BoolVal(False) for k in range(K)]
                props.append((side + "-confidence-one-band-per-indicator", z3.And(
                    *okb, z3.BoolVal(list(e['descriptions'] or []) == ["%s_ind%d" % (tag, k) for k in range(K)] and e['kw'].get('count') == K and
                                     str(e['kw'].get('dtype')) == 'float32' and e['kw'].get('crs') == Crs(tag) and e['kw'].get('transform') == "T-" + tag))))
        col.check_path(props, label='p%d' % len(EX.trace), extra={'save': True, 'R': R, 'C': C, 'K': K, 'with_right': with_right, 'right_conf': right_conf},
                       witnesses=[("reached", z3.BoolVal(True))])
        info['fn'] = instr.fn_hash(CM.save_results, CM.write_data_array)
    res, stats = explore(h, max_paths=50)
    return col.result(stats, functions=info.get('fn', {}), bounds={'products': [R, C, K], 'right dataset': with_right, 'contents': 'any float32 / uint16'},
                      stubs=['rasterio writer = recording stub (bytes on disk are outside the claim)'])


# ------------------------------------------------------------------------------------------------ end-to-end witnesses (concrete)
def _write_pair(tmp, nan_nodata=False):
    import rasterio
    rng = np.random.RandomState(3)
    left = (rng.rand(12, 16) * 200).astype(np.float32); right = np.roll(left, 1, axis=1)
    for name, arr in (('left.tif', left), ('right.tif', right)):
        with rasterio.open(os.path.join(tmp, name), 'w', driver='GTiff', width=16, height=12, count=1, dtype='float32') as d:
            d.write(arr, 1)
    gmin = np.full((12, 16), -2, np.float32); gmax = np.full((12, 16), 2, np.float32); gmax[3:6] = 3
    with rasterio.open(os.path.join(tmp, 'grid.tif'), 'w', driver='GTiff', width=16, height=12, count=2, dtype='float32') as d:
        d.write(gmin, 1); d.write(gmax, 2)
    with rasterio.open(os.path.join(tmp, 'rgrid.tif'), 'w', driver='GTiff', width=16, height=12, count=2, dtype='float32') as d:
        d.write(-gmax, 1); d.write(-gmin, 2)


class Crs:
    """stand-in for a rasterio CRS without an EPSG code (a local / user-defined projection): compared by identity of its tag"""
    def __init__(self, tag):
        self.tag = tag

    def __eq__(self, o):
        return isinstance(o, Crs) and o.tag == self.tag

    def __hash__(self):
        return hash(self.tag)

    def __repr__(self):
        return 'CRS-' + self.tag

    def to_epsg(self):
        return None

    def to_wkt(self):
        return 'LOCAL_CS["%s"]' % self.tag

    def to_string(self):
        return self.to_wkt()


VARIANTS = {
    'int-no-validation': dict(disp=[-2, 2], validation=False, invalid='default'),
    'int-validation': dict(disp=[-2, 2], validation=True, invalid='default'),
    'int-validation-nan': dict(disp=[-3, 1], validation=True, invalid='NaN'),
    'grids-validation': dict(disp='grid', validation=True, invalid='default'),
    'int-confidence-filter': dict(disp=[-2, 2], validation=False, invalid='NaN', confidence=True),
    'int-bilateral-validation': dict(disp=[-2, 2], validation=True, invalid='default', filter='bilateral'),
}


class _Stop(Exception):
    pass


def roundtrip(variant='int-validation', cap=30, block=()):
    """run the real pandora.main on small GeoTIFFs, then feed cfg/config.json back"""
    import warnings, logging
    warnings.filterwarnings('ignore'); logging.disable(logging.CRITICAL)
    import rasterio, xarray as xr
    import pandora
    from pandora.state_machine import PandoraMachine
    from pandora.check_configuration import check_conf
    v = VARIANTS[variant]
    tmp = tempfile.mkdtemp(prefix='pandora-verif-c19.', dir='/var/tmp')
    bad = []; n_ob = 0
    try:
        _write_pair(tmp)
        inp = {"left": {"img": os.path.join(tmp, 'left.tif'), "disp": v['disp'] if v['disp'] != 'grid' else os.path.join(tmp, 'grid.tif')},
               "right": {"img": os.path.join(tmp, 'right.tif')}}
        if v['disp'] == 'grid':
            inp["right"]["disp"] = os.path.join(tmp, 'rgrid.tif')
        pipe = {"matching_cost": {"matching_cost_method": "sad", "window_size": 3}}
        if v.get('confidence'):
            pipe["cost_volume_confidence"] = {"confidence_method": "std_intensity"}
            pipe["cost_volume_confidence.amb"] = {"confidence_method": "ambiguity"}
        pipe["disparity"] = {"disparity_method": "wta"} if v['invalid'] == 'default' else {"disparity_method": "wta", "invalid_disparity": "NaN"}
        pipe["refinement"] = {"refinement_method": "vfit"}
        pipe["filter"] = {"filter_method": "median", "filter_size": 3} if v.get('filter') != 'bilateral' else {"filter_method": "bilateral", "sigma_space": 0.7}
        if v['validation']:
            pipe["validation"] = {"validation_method": "cross_checking_accurate"}
        cfg = {"input": inp, "pipeline": pipe}
        cfgfile = os.path.join(tmp, 'user.json'); json.dump(cfg, open(cfgfile, 'w'))
        out1 = os.path.join(tmp, 'out1')

        def ob(ok, name, detail=''):
            nonlocal n_ob
            n_ob += 1
            if not ok:
                bad.append({'name': name, 'detail': str(detail)[:300], 'variant': variant})
        try:
            pandora.main(cfgfile, out1, False)
            ob(True, 'command-line-run-completes')
        except Exception as e:      # noqa: a legal configuration must run to the end (rasters AND cfg/config.json written)
            ob(False, 'command-line-run-completes', 'pandora.main raised %r' % (e,))
            raise _Stop()
        # products on disk == in-memory products of an independent run
        m = PandoraMachine()
        ccfg = check_conf(json.load(open(cfgfile)), m)
        L = pandora.create_dataset_from_inputs(ccfg["input"]["left"]) if hasattr(pandora, 'create_dataset_from_inputs') else None
        from pandora.img_tools import create_dataset_from_inputs
        L = create_dataset_from_inputs(ccfg["input"]["left"])
        rin = dict(ccfg["input"]["right"])
        if rin["disp"] is None and not isinstance(ccfg["input"]["left"]["disp"], str):
            rin["disp"] = [-ccfg["input"]["left"]["disp"][1], -ccfg["input"]["left"]["disp"][0]]
        Rr = create_dataset_from_inputs(rin)
        left, right = pandora.run(m, L, Rr, ccfg)
        files = sorted(f for f in os.listdir(out1) if f.endswith('.tif'))
        want = ['left_disparity.tif', 'left_validity_mask.tif'] + (['left_confidence_measure.tif'] if "confidence_measure" in left else [])
        if v['validation']:
            want += ['right_disparity.tif', 'right_validity_mask.tif'] + (['right_confidence_measure.tif'] if "confidence_measure" in right else [])
        ob(files == sorted(want), 'files-written-iff-products-exist', files)
        for side, ds in (('left', left),) + ((('right', right),) if v['validation'] else ()):
            with rasterio.open(os.path.join(out1, side + '_disparity.tif')) as d:
                ob(d.dtypes[0] == 'float32' and np.array_equal(d.read(1), ds["disparity_map"].data.astype(np.float32), equal_nan=True), side + '-disparity-on-disk-equals-memory')
            with rasterio.open(os.path.join(out1, side + '_validity_mask.tif')) as d:
                ob(d.dtypes[0] == 'uint16' and np.array_equal(d.read(1), ds["validity_mask"].data), side + '-mask-on-disk-equals-memory')
            if "confidence_measure" in ds:
                with rasterio.open(os.path.join(out1, side + '_confidence_measure.tif')) as d:
                    ok = d.count == ds["confidence_measure"].shape[2] and list(d.descriptions) == list(ds["confidence_measure"]["indicator"].data)
                    ok = ok and all(np.array_equal(d.read(k + 1), ds["confidence_measure"].data[:, :, k].astype(np.float32), equal_nan=True) for k in range(d.count))
                    ob(ok, side + '-confidence-on-disk-equals-memory', list(d.descriptions))
        # saved configuration: loadable, records margins, accepted when fed back, reproduces the rasters
        saved_path = os.path.join(out1, 'cfg', 'config.json')
        try:
            saved = json.load(open(saved_path)); ob(True, 'saved-config-is-loadable-json')
        except Exception as e:      # noqa
            ob(False, 'saved-config-is-loadable-json', e); saved = None
        if saved is not None:
            ob(saved.get("margins") == m.margins.to_dict(), 'saved-config-records-the-margins', saved.get("margins"))
            ob(list(saved.get("pipeline", {})) == list(pipe), 'saved-config-keeps-the-pipeline-order', list(saved.get("pipeline", {})))
            try:
                check_conf(copy.deepcopy(saved), PandoraMachine()); ob(True, 'saved-config-is-accepted-when-fed-back')
                out2 = os.path.join(tmp, 'out2')
                pandora.main(saved_path, out2, False)
                same = True
                for f in files:
                    with rasterio.open(os.path.join(out1, f)) as a, rasterio.open(os.path.join(out2, f)) as b:
                        same = same and a.count == b.count and list(a.descriptions) == list(b.descriptions) and all(np.array_equal(a.read(k + 1), b.read(k + 1), equal_nan=True) for k in range(a.count))
                ob(same and sorted(x for x in os.listdir(out2) if x.endswith('.tif')) == files, 'replayed-config-reproduces-the-rasters')
            except Exception as e:      # noqa
                ob(False, 'saved-config-is-accepted-when-fed-back', repr(e))
    except _Stop:
        pass
    finally:
        shutil.rmtree(tmp, ignore_errors=True)
    return {'paths': 1, 'nontrivial_paths': 1, 'obligations': n_ob, 'discharged': n_ob - len(bad), 'inconclusive': [], 'queries': 0, 'solver_s': 0.0,
            'cex': [dict(b, inputs={}, extra={'roundtrip': True, 'variant': variant}) for b in bad], 'samples': [{'roundtrip': variant, 'obligations': n_ob}],
            'witness': {}, 'bounds': {'end-to-end witness': variant, 'images': '12x16 float32 GeoTIFF'}}


def replay(cex):
    x = cex['extra']
    if x.get('roundtrip'):
        r = roundtrip(x['variant'])
        hit = [c for c in r['cex'] if c['name'] == cex['name']]
        return {'violates': bool(hit), 'detail': repr(hit[:1])[:400], 'known': None}
    # save harness: re-run concretely with the recording stub
    import xarray as xr
    import pandora.common as CM
    R, C, K = x['R'], x['C'], x['K']
    inp = cex['inputs']

    def mk(name, conf):
        ds = xr.Dataset({"disparity_map": (["row", "col"], np.array(inp[name + 'd'], np.float32).reshape(R, C)),
                         "validity_mask": (["row", "col"], np.array(inp[name + 'm'], np.uint16).reshape(R, C))}, coords={"row": np.arange(R), "col": np.arange(C)})
        if conf:
            ds["confidence_measure"] = xr.DataArray(np.array(inp[name + 'c'], np.float32).reshape(R, C, K), dims=["row", "col", "indicator"],
                                                    coords={"indicator": ["%s_ind%d" % (name, k) for k in range(K)]})
        ds.attrs = {"crs": Crs(name), "transform": "T-" + name}
        return ds
    left = mk('l', K > 0); right = mk('r', x['right_conf'] and K > 0) if x['with_right'] else xr.Dataset()
    log = []
    CM.rasterio_open = lambda filename, **kw: Rec(log, filename, **kw); CM.mkdir_p = lambda p: None
    CM.save_results(left, right, '/out')
    bad = []
    files = {e['file']: e for e in log}
    for side, ds in (('left', left),) + ((('right', right),) if x['with_right'] else ()):
        tag = side[0]
        for f, var, dt in ((side + '_disparity.tif', 'disparity_map', 'float32'), (side + '_validity_mask.tif', 'validity_mask', 'uint16')):
            e = files.get(f)
            if e is None:
                bad.append('%s not written' % f); continue
            if not np.array_equal(e['bands'].get(1), ds[var].data, equal_nan=True) or str(e['kw'].get('dtype')) != dt:
                bad.append('%s differs from the in-memory product' % f)
            if e['kw'].get('crs') != Crs(tag) or e['kw'].get('transform') != "T-" + tag:
                bad.append('%s written with georeferencing %s / %s' % (f, e['kw'].get('crs'), e['kw'].get('transform')))
        if "confidence_measure" in ds:
            e = files.get(side + '_confidence_measure.tif')
            if e is None:
                bad.append('%s confidence not written' % side)
            else:
                if e['kw'].get('crs') != Crs(tag) or e['kw'].get('transform') != "T-" + tag:
                    bad.append('%s confidence written with georeferencing %s / %s' % (side, e['kw'].get('crs'), e['kw'].get('transform')))
                if list(e['descriptions'] or []) != list(ds["confidence_measure"]["indicator"].data):
                    bad.append('%s confidence band names %s' % (side, e['descriptions']))
                for k in range(K):
                    if not np.array_equal(e['bands'].get(k + 1), ds["confidence_measure"].data[:, :, k], equal_nan=True):
                        bad.append('%s confidence band %d differs' % (side, k + 1))
    if not x['with_right'] and any(f.startswith('right') for f in files):
        bad.append('right files written without a right dataset')
    return {'violates': bool(bad), 'detail': '; '.join(bad[:3])}
