"""C12: confidence bands follow their definitions, bracket the winner, only add bands."""
import numpy as np, z3


def _cv(S, EX, R, C, D, shapes, pin=True):
    """symbolic cost volume (NaN or multiples of 1/4 in [0, 8]); two cells pinned to the global extremes 0 and 8 so that the
    normalisation (c - min) / (max - min) of the kernels is a division by a constant"""
    cv = S.fresh_array('cv', (R, C, D), 'x4', tagged=True, tags=(0, 1), scale=4); shapes['cv'] = ((R, C, D), 'x4')
    for e in cv._a.flat:
        EX.assume(z3.And(e.t.val >= 0, e.t.val <= 8))
    if pin:
        # first and last pixel: concrete curves carrying the global extremes; the pixels in between are fully symbolic
        first = [0.0] + [float(2 + (i % 3)) for i in range(D - 1)]
        last = [float(5 - (i % 2)) for i in range(D - 1)] + [8.0]
        for d in range(D):
            cv._a[0, 0, d] = np.float32(first[d]); cv._a[R - 1, C - 1, d] = np.float32(last[d])
    return cv


def _norm(S, e):
    x = S.xlift(e)
    return x.tag, x.val / 8


def kernels(kind='risk', R=1, C=3, D=3, eta_max=0.5, eta_step=0.25, measure='min', threshold=0.75, cap=120, block=()):
    """compute_ambiguity / compute_ambiguity_and_sampled_ambiguity + compute_risk / compute_interval_bounds (numba kernels run from
    source) on a symbolic cost volume"""
    from vf import symnp as S, instr
    from vf.explore import EX, explore
    from vf.hutil import Collector
    import pandora.cost_volume_confidence.ambiguity as AM, pandora.cost_volume_confidence.risk as RK, pandora.cost_volume_confidence.interval_bounds as IB
    col = Collector(cap_s=cap, block=list(block))
    info = {}
    S.MODE['exact'] = True; S.REALS['div'] = True
    etas = list(np.arange(0.0, eta_max, eta_step))

    def h():
        shapes = {}
        cv = _cv(S, EX, R, C, D, shapes)
        col.shapes = shapes
        cv0 = cv.copy()
        ex = {'kernels': kind, 'R': R, 'C': C, 'D': D, 'eta_max': eta_max, 'eta_step': eta_step, 'measure': measure, 'threshold': threshold}
        props = []
        try:
            if kind == 'ambiguity':
                amb = AM.Ambiguity.compute_ambiguity(cv, 0.0, eta_max, eta_step)
            elif kind == 'risk':
                amb, samp = AM.Ambiguity.compute_ambiguity_and_sampled_ambiguity(cv, 0.0, eta_max, eta_step)
                rmax, rmin = RK.Risk.compute_risk(cv, samp, 0.0, eta_max, eta_step)
            else:
                disps = np.arange(-1, -1 + D).astype(np.float32)
                tf = -1.0 if measure == 'min' else 1.0
                binf, bsup = IB.IntervalBounds.compute_interval_bounds(cv, disps, threshold, tf)
        except S.Unsupported:
            raise
        except Exception as e:      # noqa
            col.path_exception(e, label='p%d' % len(EX.trace), extra=ex); return
        for r in range(R):
            for c in range(C):
                cs = [_norm(S, cv0._a[r, c, d]) for d in range(D)]
                allnan = z3.And(*[t != 0 for t, v in cs])
                finite = [t == 0 for t, v in cs]
                # best (lowest for min measures / as the kernels do: nanmin) normalised cost of the pixel
                best = lambda v: z3.And(*[z3.Or(z3.Not(f), v <= w) for f, (t, w) in zip(finite, cs)])
                if kind in ('ambiguity', 'risk'):
                    counts = []; spreads = []
                    for eta in etas:
                        # disparities whose normalised cost is within eta of the pixel's best; not computable costs always count
                        inset = [z3.Or(z3.Not(f), z3.Or(*[z3.And(g, best(w), v <= w + float(eta)) for g, (t2, w) in zip(finite, cs)])) for f, (t, v) in zip(finite, cs)]
                        counts.append(z3.Sum([z3.If(x, 1, 0) for x in inset]))
                        lo = z3.IntVal(D - 1); hi = z3.IntVal(0)
                        for d in range(D - 1, -1, -1):
                            lo = z3.If(inset[d], z3.IntVal(d), lo)
                        for d in range(D):
                            hi = z3.If(inset[d], z3.IntVal(d), hi)
                        spreads.append(hi - lo)
                    if kind == 'ambiguity':
                        o = S.xlift(amb._a[r, c])
                        props.append(("ambiguity-is-the-eta-sum-of-near-best-counts[%d,%d]" % (r, c),
                                      z3.If(allnan, z3.And(o.tag == 0, o.val == len(etas) * D), z3.And(o.tag == 0, o.val == z3.ToReal(z3.Sum(counts))))))
                    else:
                        a = S.xlift(rmax._a[r, c]); b = S.xlift(rmin._a[r, c])
                        n = len(etas)
                        props.append(("risk-definitions[%d,%d]" % (r, c), z3.If(allnan, z3.And(a.tag == 1, b.tag == 1), z3.And(
                            a.tag == 0, b.tag == 0, a.val * n == z3.ToReal(z3.Sum(spreads)), b.val * n == z3.ToReal(z3.Sum([1 + s_ - k for s_, k in zip(spreads, counts)]))))))
                        props.append(("zero-le-risk_min-le-risk_max[%d,%d]" % (r, c), z3.Or(allnan, z3.And(b.val >= 0, b.val <= a.val))))
                else:
                    lo_ = S.xlift(binf._a[r, c]); hi_ = S.xlift(bsup._a[r, c])
                    # winner-takes-all disparity index: lowest index among the best (min: lowest cost; max: highest cost)
                    sgn = 1 if measure == 'min' else -1
                    isbest = [z3.And(finite[d], *[z3.Or(z3.Not(finite[e]), sgn * cs[d][1] <= sgn * cs[e][1]) for e in range(D)],
                                     *[z3.Or(z3.Not(finite[e]), sgn * cs[d][1] < sgn * cs[e][1]) for e in range(d)]) for d in range(D)]
                    wta = z3.Sum([z3.If(isbest[d], d - 1, 0) for d in range(D)])
                    props.append(("interval-brackets-the-winner[%d,%d]" % (r, c), z3.If(allnan, z3.And(lo_.tag == 1, hi_.tag == 1),
                                                                                         z3.And(lo_.tag == 0, hi_.tag == 0, lo_.val <= z3.ToReal(wta), z3.ToReal(wta) <= hi_.val,
                                                                                                lo_.val >= -1, hi_.val <= D - 2))))
                    # definition: extreme disparities whose possibility reaches the threshold, widened by one sample around a best
                    # possibility(d) = 1 - (|c_d - c_best|) (normalised); best has possibility 1
                    bestv = z3.Real('bestv_%d_%d' % (r, c))
                    poss = [z3.If(finite[d], 1 - sgn * (cs[d][1] - bestv), z3.RealVal(-1)) for d in range(D)]
                    ok = [z3.And(finite[d], poss[d] >= threshold) for d in range(D)]
                    first = z3.IntVal(D - 1); last = z3.IntVal(0)
                    for d in range(D - 1, -1, -1):
                        first = z3.If(ok[d], z3.IntVal(d), first)
                    for d in range(D):
                        last = z3.If(ok[d], z3.IntVal(d), last)
                    fb = z3.Or(*[z3.And(first == d, finite[d], cs[d][1] == bestv) for d in range(D)])
                    lb = z3.Or(*[z3.And(last == d, finite[d], cs[d][1] == bestv) for d in range(D)])
                    e_lo = z3.If(fb, z3.If(first - 1 < 0, 0, first - 1), first); e_hi = z3.If(lb, z3.If(last + 1 > D - 1, D - 1, last + 1), last)
                    isbestv = z3.And(z3.Or(*[z3.And(finite[d], cs[d][1] == bestv) for d in range(D)]), *[z3.Or(z3.Not(finite[d]), sgn * bestv <= sgn * cs[d][1]) for d in range(D)])
                    props.append(("interval-bounds-definition[%d,%d]" % (r, c), z3.Or(allnan, z3.Not(isbestv), z3.And(lo_.val == z3.ToReal(e_lo) - 1, hi_.val == z3.ToReal(e_hi) - 1))))
        props.append(("cost-volume-untouched", z3.And(*[S.term_eq(a_, b_, 'x4') for a_, b_ in zip(cv._a.flat, cv0._a.flat)])))
        col.check_path(props, label='p%d' % len(EX.trace), extra=ex, group=True,
                       witnesses=[("a-pixel-with-a-nan-hole-and-finite-costs", z3.Or(*[z3.And(z3.Or(*[S.xlift(cv0._a[r, c, d]).tag == 1 for d in range(D)]),
                                                                                             z3.Or(*[S.xlift(cv0._a[r, c, d]).tag == 0 for d in range(D)])) for r in range(R) for c in range(C)]))])
        info['fn'] = instr.fn_hash(AM.Ambiguity.compute_ambiguity, AM.Ambiguity.compute_ambiguity_and_sampled_ambiguity, RK.Risk.compute_risk, IB.IntervalBounds.compute_interval_bounds)
    res, stats = explore(h, max_paths=2000, time_cap_s=900)
    return col.result(stats, functions=info.get('fn', {}),
                      bounds={'kernel': kind, 'cost volume': [R, C, D], 'etas': [float(e) for e in etas], 'measure': measure, 'threshold': threshold,
                              'costs': 'NaN or multiples of 1/4 in [0, 8]; global minimum 0 and maximum 8 pinned'},
                      assumptions=['C12: reals-for-floats for the normalised costs; the global cost extremes are pinned (normalisation by a constant); eta values are dyadic'])


def alloc(nbands=1, with_cv=True, R=2, C=2, cap=60, block=()):
    """allocate_confidence_map: append-only, names, existing bands and the cost volume bit-identical"""
    import xarray as xr
    from vf import symnp as S, instr
    from vf.explore import EX, explore
    from vf.hutil import Collector
    from pandora.cost_volume_confidence import AbstractCostVolumeConfidence as ACC
    col = Collector(cap_s=cap)
    info = {}
    S.MODE['exact'] = True

    def h():
        shapes = {}
        new = S.fresh_array('new', (R, C), 'x4', tagged=True, tags=(0, 1)); shapes['new'] = ((R, C), 'x4')
        cvd = S.fresh_array('cvd', (R, C, 2), 'x4', tagged=True, tags=(0, 1)); shapes['cvd'] = ((R, C, 2), 'x4')
        dm = S.fresh_array('dm', (R, C), 'x4'); shapes['dm'] = ((R, C), 'x4')
        names = ["confidence_from_ambiguity", "confidence_from_risk_max.1", "confidence_from_std_intensity"][:nbands]
        old = None
        coords = {"row": np.arange(R), "col": np.arange(C)}
        disp = xr.Dataset({"disparity_map": (["row", "col"], dm)}, coords=coords)
        cv = xr.Dataset({"cost_volume": (["row", "col", "disp"], cvd)}, coords=dict(coords, disp=[0, 1])) if with_cv else None
        if nbands:
            old = S.fresh_array('old', (R, C, nbands), 'x4', tagged=True, tags=(0, 1)); shapes['old'] = ((R, C, nbands), 'x4')
            disp["confidence_measure"] = xr.DataArray(old.copy(), dims=["row", "col", "indicator"], coords={"indicator": names})
            if with_cv:
                cv["confidence_measure"] = xr.DataArray(old.copy(), dims=["row", "col", "indicator"], coords={"indicator": names})
        col.shapes = shapes
        cvd0 = cvd.copy(); dm0 = dm.copy()
        d2, c2 = ACC.allocate_confidence_map("risk_min.x", new, disp, cv)
        props = []
        for nm, ds in (("disp", d2),) + ((("cv", c2),) if with_cv else ()):
            cm = ds["confidence_measure"].data
            props.append((nm + "-band-appended-last-with-its-name", z3.BoolVal(list(ds.coords["indicator"].data) == names + ["confidence_from_risk_min.x"] and tuple(cm.shape) == (R, C, nbands + 1))))
            if tuple(cm.shape) == (R, C, nbands + 1):
                props.append((nm + "-new-band-values", z3.And(*[S.term_eq(cm._a[r, c, nbands], new._a[r, c], 'x4') for r in range(R) for c in range(C)])))
                if nbands:
                    props.append((nm + "-existing-bands-untouched", z3.And(*[S.term_eq(cm._a[r, c, k], old._a[r, c, k], 'x4') for r in range(R) for c in range(C) for k in range(nbands)])))
        if with_cv:
            props.append(("cost-volume-untouched", z3.And(*[S.term_eq(a, b, 'x4') for a, b in zip(c2["cost_volume"].data._a.flat, cvd0._a.flat)])))
        props.append(("disparity-map-untouched", z3.And(*[S.term_eq(a, b, 'x4') for a, b in zip(d2["disparity_map"].data._a.flat, dm0._a.flat)])))
        col.check_path(props, label='p%d' % len(EX.trace), extra={'alloc': True, 'nbands': nbands, 'with_cv': with_cv, 'R': R, 'C': C}, witnesses=[("reached", z3.BoolVal(True))])
        info['fn'] = instr.fn_hash(ACC.allocate_confidence_map)
    res, stats = explore(h, max_paths=8)
    return col.result(stats, functions=info.get('fn', {}), bounds={'existing bands': nbands, 'cost volume given': with_cv, 'map': [R, C]})


def std_intensity(R=3, C=4, ws=3, bands=None, band=None, vmax=255, cap=60, block=()):
    """StdIntensity.confidence_prediction (compute_std_raster / compute_mean_raster): the band is NaN on the border and, elsewhere, the
    non-negative number whose square is the variance of the left window (tiny variances clamped to 0 as documented in the code);
    appended under its name, other products untouched.  sqrt is an uninterpreted function with s >= 0, s*s == x."""
    import xarray as xr
    from fractions import Fraction
    from vf import symnp as S, instr
    from vf.explore import EX, explore
    from vf.hutil import Collector
    from vf.harness import mc
    from vf.harness.c10 import _uf_atoms, _valid
    from pandora import cost_volume_confidence
    import pandora.img_tools as IT, pandora.cost_volume_confidence.std_intensity as SI
    col = Collector(cap_s=cap)
    info = {}
    S.MODE['exact'] = True; S.REALS['div'] = True
    hh = ws // 2; n = ws * ws
    EPS = z3.RealVal(str(Fraction(10 ** (-15))))

    def h():
        shapes = {}
        L, li, _ = mc.make_image(xr, S, EX, 'l', R, C, bands=bands, shapes=shapes, vmax=vmax)
        dm = S.fresh_array('dm', (R, C), 'x4'); shapes['dm'] = ((R, C), 'x4')
        cvd = S.fresh_array('cvd', (R, C, 2), 'x4', tagged=True, tags=(0, 1)); shapes['cvd'] = ((R, C, 2), 'x4')
        col.shapes = shapes
        coords = {"row": np.arange(R), "col": np.arange(C)}
        disp = xr.Dataset({"disparity_map": (["row", "col"], dm)}, coords=coords)
        cv = xr.Dataset({"cost_volume": (["row", "col", "disp"], cvd)}, coords=dict(coords, disp=[0, 1]))
        cv.attrs = {"window_size": ws, "band_correl": band, "offset_row_col": hh}
        dm0 = dm.copy(); cvd0 = cvd.copy(); li0 = li.copy()
        ex = {'std_intensity': True, 'R': R, 'C': C, 'ws': ws, 'bands': bands, 'band': band}
        st = cost_volume_confidence.AbstractCostVolumeConfidence(**{"confidence_method": "std_intensity"})
        try:
            d2, c2 = st.confidence_prediction(disp, L, None, cv)
        except S.Unsupported:
            raise
        except Exception as e:      # noqa
            col.path_exception(e, label='p%d' % len(EX.trace), extra=ex); return
        props = []
        sel = li0 if not bands else S.SymArray(li0._a[list(bands).index(band)], 'x4')
        for nm, ds in (("disp", d2), ("cv", c2)):
            props.append((nm + "-band-appended-under-its-name", z3.BoolVal("confidence_measure" in ds and list(ds.coords["indicator"].data) == ["confidence_from_intensity_std"]
                                                                          and tuple(ds["confidence_measure"].shape) == (R, C, 1))))
        cm = d2["confidence_measure"].data if "confidence_measure" in d2 else None
        if cm is not None and tuple(cm.shape) == (R, C, 1):
            for r in range(R):
                for c in range(C):
                    o = S.xlift(cm._a[r, c, 0])
                    if r < hh or r >= R - hh or c < hh or c >= C - hh:
                        props.append(("nan-on-the-border[%d,%d]" % (r, c), o.tag == 1)); continue
                    win = [sel._a[r + dr, c + dc].t.val for dr in range(-hh, hh + 1) for dc in range(-hh, hh + 1)]
                    m2 = z3.Sum([v * v for v in win]) / n; m1 = z3.Sum(win) / n
                    var = m2 - m1 * m1
                    var_c = z3.If(var < EPS * m2, 0, var)
                    atoms = _uf_atoms(o.val, 'sqrt_uf')
                    matched = [a_ for a_ in atoms if _valid(EX, a_.arg(0) == var_c, 20000)]
                    if matched and z3.is_true(z3.simplify(o.tag == 0)) and o.val.eq(matched[0]) or (matched and z3.is_true(z3.simplify(z3.simplify(o.val) == matched[0]))):
                        ok = z3.BoolVal(True)          # the stored value IS sqrt(var_c): s >= 0 and s*s == var_c by the axioms of the atom
                    else:
                        EX.assume(var >= 0)          # Cauchy-Schwarz (mathematical fact about the reference term)
                        ok = z3.And(o.tag == 0, o.val >= 0, o.val * o.val == var_c)
                    props.append(("std-of-the-left-window[%d,%d]" % (r, c), z3.And(o.tag == 0, ok)))
            c2m = c2["confidence_measure"].data
            props.append(("same-band-on-the-cost-volume", z3.And(*[S.term_eq(a, b, 'x4') for a, b in zip(c2m._a.flat, cm._a.flat)])))
        props.append(("cost-volume-untouched", z3.And(*[S.term_eq(a, b, 'x4') for a, b in zip(c2["cost_volume"].data._a.flat, cvd0._a.flat)])))
        props.append(("disparity-map-untouched", z3.And(*[S.term_eq(a, b, 'x4') for a, b in zip(d2["disparity_map"].data._a.flat, dm0._a.flat)])))
        props.append(("left-image-untouched", z3.And(*[S.term_eq(a, b, 'x4') for a, b in zip(L["im"].data._a.flat, li0._a.flat)])))
        rng = np.random.RandomState(5)
        pin = z3.And(*[e_.t.val == int(rng.randint(0, vmax + 1)) for e_ in li0._a.flat])
        col.check_path(props, label='p%d' % len(EX.trace), extra=ex, group=False, witnesses=[("pinned-image-satisfies-the-path-condition", pin)])
        info['fn'] = instr.fn_hash(SI.StdIntensity.confidence_prediction, IT.compute_std_raster, IT.compute_mean_raster)
    res, stats = explore(h, max_paths=8)
    return col.result(stats, functions=info.get('fn', {}), bounds={'image': [len(bands) if bands else 1, R, C], 'window': ws, 'radiometry': 'integers in [0, %d]' % vmax},
                      stubs=['np.sqrt = uninterpreted function with sqrt(x) >= 0 and sqrt(x)^2 == x'],
                      assumptions=['C12 (std_intensity): reals-for-floats (rounding of the mean, variance and square root outside the claim)'])


def regularization(R=2, C=3, kernel=1, depth=0, cap=120, block=(), nan_pixel=False):
    """interval_regularization (+ create_connected_graph, graph_regularization) with quantile 1: bounds can only widen, the ambiguity band
    handed in is not modified.  Data-dependent shapes: the segment borders are concretised by forking."""
    from vf import symnp as S, instr
    from vf.explore import EX, explore
    from vf.hutil import Collector
    import pandora.interval_tools as IT
    col = Collector(cap_s=cap)
    info = {}
    S.MODE['exact'] = True; S.REALS['div'] = True

    def h():
        shapes = {}
        inf_ = S.fresh_array('inf', (R, C), 'x4', scale=4); sup_ = S.fresh_array('sup', (R, C), 'x4', scale=4)
        amb = S.fresh_array('amb', (R, C), 'x4', scale=8)
        shapes.update({'inf': ((R, C), 'x4'), 'sup': ((R, C), 'x4'), 'amb': ((R, C), 'x4')})
        for a, b in zip(inf_._a.flat, sup_._a.flat):
            EX.assume(z3.And(a.t.val >= -8, b.t.val <= 8, a.t.val <= b.t.val))
        for e in amb._a.flat:
            EX.assume(z3.And(e.t.val >= 0, e.t.val <= 1))
        if nan_pixel:
            # a point whose cost curve was entirely NaN: compute_interval_bounds leaves NaN bounds there and its ambiguity confidence is 0
            # (it sits in a low-confidence segment); the regularisation has to ignore it
            inf_._a[0, 0] = np.float32('nan'); sup_._a[0, 0] = np.float32('nan')
            EX.assume(amb._a[0, 0].t.val == 0)
        col.shapes = shapes
        amb0 = amb.copy(); i0 = inf_.copy(); s0 = sup_.copy()
        ex = {'regularization': True, 'R': R, 'C': C, 'kernel': kernel, 'depth': depth, 'nan_pixel': nan_pixel}
        try:
            oi, os_, om = IT.interval_regularization(inf_.copy(), sup_.copy(), amb, 0.6, kernel, depth, 1.0)
        except S.Unsupported:
            raise
        except Exception as e:      # noqa
            col.path_exception(e, label='p%d' % len(EX.trace), extra=ex); return
        props = [("ambiguity-band-handed-in-is-not-modified", z3.And(*[S.term_eq(a, b, 'x4') for a, b in zip(amb._a.flat, amb0._a.flat)]))]
        for r in range(R):
            for c in range(C):
                a = S.xlift(oi._a[r, c]) if isinstance(oi, S.SymArray) else S.xlift(oi[r, c]); b = S.xlift(os_._a[r, c]) if isinstance(os_, S.SymArray) else S.xlift(os_[r, c])
                if nan_pixel and (r, c) == (0, 0):
                    continue          # the NaN point itself: whatever the regularisation writes there is not an interval of a valid pixel
                props.append(("quantile-1-regularisation-only-widens[%d,%d]" % (r, c), z3.And(a.tag == 0, b.tag == 0, a.val <= S.xlift(i0._a[r, c]).val, b.val >= S.xlift(s0._a[r, c]).val)))
        col.check_path(props, label='p%d' % len(EX.trace), extra=ex, witnesses=[("reached", z3.BoolVal(True))])
        info['fn'] = instr.fn_hash(IT.interval_regularization, IT.graph_regularization, IT.create_connected_graph)
    res, stats = explore(h, max_paths=4000, time_cap_s=900)
    return col.result(stats, functions=info.get('fn', {}), bounds={'map': [R, C], 'ambiguity_kernel_size': kernel, 'vertical_depth': depth, 'quantile': 1.0})


def replay(cex):
    x = cex['extra']; inp = cex['inputs']
    if x.get('regularization'):
        import pandora.interval_tools as IT
        R, C = x['R'], x['C']
        i0 = np.array(inp['inf'], np.float32).reshape(R, C); s0 = np.array(inp['sup'], np.float32).reshape(R, C); a0 = np.array(inp['amb'], np.float32).reshape(R, C)
        if x.get('nan_pixel'):
            i0[0, 0] = np.nan; s0[0, 0] = np.nan
        a = a0.copy()
        try:
            oi, os_, om = IT.interval_regularization(i0.copy(), s0.copy(), a, 0.6, x['kernel'], x['depth'], 1.0)
        except BaseException as e:      # noqa
            return {'violates': True, 'detail': 'interval_regularization raised %r' % (e,)}
        bad = []
        if not np.array_equal(a, a0):
            bad.append('the ambiguity band handed in was modified: %s -> %s' % (a0.tolist(), a.tolist()))
        with np.errstate(all='ignore'):
            fin = ~np.isnan(i0)
            if (oi[fin] > i0[fin]).any() or (os_[fin] < s0[fin]).any():
                bad.append('regularisation with quantile 1 narrowed an interval')
            if np.isnan(oi[fin]).any() or np.isnan(os_[fin]).any():
                bad.append('regularisation turned the interval of a pixel with finite bounds into NaN: inf %s -> %s' % (i0.tolist(), np.asarray(oi).tolist()))
        return {'violates': bool(bad), 'detail': '; '.join(bad)}
    if x.get('std_intensity'):
        import xarray as xr
        from pandora import cost_volume_confidence
        R, C, ws, bands, band = x['R'], x['C'], x['ws'], x['bands'], x['band']
        hh = ws // 2
        shp = (R, C) if not bands else (len(bands), R, C)
        im = np.array(inp['l'], np.float32).reshape(shp)
        coords = {"row": np.arange(R), "col": np.arange(C)}
        if bands:
            coords["band_im"] = list(bands)
        L = xr.Dataset({"im": (["row", "col"] if not bands else ["band_im", "row", "col"], im.copy())}, coords=coords)
        L.attrs = {"valid_pixels": 0, "no_data_mask": 1, "crs": None, "transform": None, "no_data_img": -9999}
        disp = xr.Dataset({"disparity_map": (["row", "col"], np.zeros((R, C), np.float32))}, coords={"row": np.arange(R), "col": np.arange(C)})
        cv = xr.Dataset({"cost_volume": (["row", "col", "disp"], np.zeros((R, C, 2), np.float32))}, coords={"row": np.arange(R), "col": np.arange(C), "disp": [0, 1]})
        cv.attrs = {"window_size": ws, "band_correl": band, "offset_row_col": hh}
        try:
            d2, c2 = cost_volume_confidence.AbstractCostVolumeConfidence(**{"confidence_method": "std_intensity"}).confidence_prediction(disp, L, None, cv)
        except BaseException as e:      # noqa
            return {'violates': True, 'detail': 'std_intensity raised %r' % (e,)}
        bad = []
        if list(d2.coords["indicator"].data) != ["confidence_from_intensity_std"]:
            bad.append('indicator names %s' % list(d2.coords["indicator"].data))
        got = d2["confidence_measure"].data[:, :, 0]
        sel = im if not bands else im[list(bands).index(band)]
        for r in range(R):
            for c in range(C):
                if r < hh or r >= R - hh or c < hh or c >= C - hh:
                    if got[r, c] == got[r, c]:
                        bad.append('border pixel (%d,%d) has std %r' % (r, c, float(got[r, c])))
                    continue
                w = sel[r - hh:r + hh + 1, c - hh:c + hh + 1].astype(np.float64)
                e = float(np.sqrt(max((w ** 2).mean() - w.mean() ** 2, 0.0)))
                if not (abs(float(got[r, c]) - e) <= 1e-3 * max(1.0, e)):
                    bad.append('std at (%d,%d) is %r, the window gives %r (image %s)' % (r, c, float(got[r, c]), e, im.tolist()))
        if not np.array_equal(L["im"].data, im):
            bad.append('left image modified')
        return {'violates': bool(bad), 'detail': '; '.join(bad[:3])}
    if x.get('alloc'):
        import xarray as xr
        from pandora.cost_volume_confidence import AbstractCostVolumeConfidence as ACC
        R, C, nbands, with_cv = x['R'], x['C'], x['nbands'], x['with_cv']

        def arr(name, shape):
            v = inp.get(name)
            return np.array(v if v is not None else np.zeros(shape), np.float32).reshape(shape)
        new = arr('new', (R, C)); cvd = arr('cvd', (R, C, 2)); dm = arr('dm', (R, C))
        names = ["confidence_from_ambiguity", "confidence_from_risk_max.1", "confidence_from_std_intensity"][:nbands]
        coords = {"row": np.arange(R), "col": np.arange(C)}
        disp = xr.Dataset({"disparity_map": (["row", "col"], dm.copy())}, coords=coords)
        cv = xr.Dataset({"cost_volume": (["row", "col", "disp"], cvd.copy())}, coords=dict(coords, disp=[0, 1])) if with_cv else None
        old = None
        if nbands:
            old = arr('old', (R, C, nbands))
            disp["confidence_measure"] = xr.DataArray(old.copy(), dims=["row", "col", "indicator"], coords={"indicator": names})
            if with_cv:
                cv["confidence_measure"] = xr.DataArray(old.copy(), dims=["row", "col", "indicator"], coords={"indicator": names})
        try:
            d2, c2 = ACC.allocate_confidence_map("risk_min.x", new.copy(), disp, cv)
        except BaseException as e:      # noqa
            return {'violates': True, 'detail': 'allocate_confidence_map raised %r' % (e,)}
        bad = []
        for nm, ds in (("disparity dataset", d2),) + ((("cost volume dataset", c2),) if with_cv else ()):
            got = [str(v) for v in ds.coords["indicator"].data]
            if got != names + ["confidence_from_risk_min.x"]:
                bad.append('%s: band names %s, expected %s' % (nm, got, names + ["confidence_from_risk_min.x"]))
                continue
            cm = ds["confidence_measure"].data
            if cm.shape != (R, C, nbands + 1) or not np.array_equal(cm[:, :, nbands], new, equal_nan=True):
                bad.append('%s: the new band does not hold the new values' % nm)
            if nbands and not np.array_equal(cm[:, :, :nbands], old, equal_nan=True):
                bad.append('%s: existing bands modified' % nm)
        if with_cv and not np.array_equal(c2["cost_volume"].data, cvd, equal_nan=True):
            bad.append('cost volume modified')
        if not np.array_equal(d2["disparity_map"].data, dm, equal_nan=True):
            bad.append('disparity map modified')
        return {'violates': bool(bad), 'detail': '; '.join(bad[:3])}
    import pandora.cost_volume_confidence.ambiguity as AM, pandora.cost_volume_confidence.risk as RK, pandora.cost_volume_confidence.interval_bounds as IB
    R, C, D = x['R'], x['C'], x['D']
    cv = np.array(inp['cv'], np.float32).reshape(R, C, D)
    cv[0, 0, :] = [0.0] + [float(2 + (i % 3)) for i in range(D - 1)]; cv[R - 1, C - 1, :] = [float(5 - (i % 2)) for i in range(D - 1)] + [8.0]
    etas = np.arange(0.0, x['eta_max'], x['eta_step'])
    bad = []
    ncv = cv / 8.0
    try:
        if x['kernels'] == 'ambiguity':
            amb = AM.Ambiguity.compute_ambiguity(cv.copy(), 0.0, x['eta_max'], x['eta_step'])
        elif x['kernels'] == 'risk':
            _, samp = AM.Ambiguity.compute_ambiguity_and_sampled_ambiguity(cv.copy(), 0.0, x['eta_max'], x['eta_step'])
            rmax, rmin = RK.Risk.compute_risk(cv.copy(), samp, 0.0, x['eta_max'], x['eta_step'])
        else:
            binf, bsup = IB.IntervalBounds.compute_interval_bounds(cv.copy(), np.arange(-1, -1 + D).astype(np.float32), x['threshold'], -1.0 if x['measure'] == 'min' else 1.0)
    except BaseException as e:      # noqa
        return {'violates': True, 'detail': 'kernel raised %s %r' % (type(e).__name__, e)}
    for r in range(R):
        for c in range(C):
            row = ncv[r, c]; fin = ~np.isnan(row)
            if not fin.any():
                continue
            best = np.nanmin(row)
            counts = []; spreads = []
            for eta in etas:
                inset = (~fin) | (row <= best + eta)
                idx = np.where(inset)[0]
                counts.append(inset.sum()); spreads.append(idx.max() - idx.min())
            if x['kernels'] == 'ambiguity':
                if abs(float(amb[r, c]) - sum(counts)) > 1e-4:
                    bad.append('ambiguity (%d,%d) = %r, definition gives %r (costs %s)' % (r, c, float(amb[r, c]), sum(counts), cv[r, c].tolist()))
            elif x['kernels'] == 'risk':
                erm = np.mean(spreads); ern = np.mean([1 + s_ - k for s_, k in zip(spreads, counts)])
                if abs(float(rmax[r, c]) - erm) > 1e-4 or abs(float(rmin[r, c]) - ern) > 1e-4 or not (0 <= rmin[r, c] <= rmax[r, c]):
                    bad.append('risk (%d,%d): max %r min %r, definitions give %r / %r (costs %s)' % (r, c, float(rmax[r, c]), float(rmin[r, c]), erm, ern, cv[r, c].tolist()))
            else:
                sgn = 1 if x['measure'] == 'min' else -1
                w = int(np.nanargmin(sgn * row)) - 1
                if not (binf[r, c] <= w <= bsup[r, c]):
                    bad.append('interval (%d,%d) = [%r, %r] does not bracket the winner %d (costs %s)' % (r, c, float(binf[r, c]), float(bsup[r, c]), w, cv[r, c].tolist()))
                # definition: extreme disparities whose possibility 1 - |c - c_best| (normalised costs) reaches the threshold, widened by
                # one sample when the extreme disparity is itself a best one
                bestv = np.nanmin(sgn * row) * sgn
                poss = np.where(fin, 1 - sgn * (row - bestv), -1.0)
                okd = [d_ for d_ in range(D) if fin[d_] and poss[d_] >= x['threshold'] - 1e-9]
                if okd:
                    first, last = okd[0], okd[-1]
                    e_lo = max(first - 1, 0) if abs(row[first] - bestv) < 1e-9 else first
                    e_hi = min(last + 1, D - 1) if abs(row[last] - bestv) < 1e-9 else last
                    if float(binf[r, c]) != e_lo - 1 or float(bsup[r, c]) != e_hi - 1:
                        bad.append('interval (%d,%d) = [%r, %r], the definition (possibility >= %s) gives [%d, %d] (normalised costs %s)' % (
                            r, c, float(binf[r, c]), float(bsup[r, c]), x['threshold'], e_lo - 1, e_hi - 1, row.tolist()))
    return {'violates': bool(bad), 'detail': '; '.join(bad[:3])}
