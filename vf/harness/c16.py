"""C16: image datasets faithfully encode input rasters, masks, nodata and ROI.

get_window runs with symbolic integers (typed scalars); create_dataset_from_inputs / add_no_data / add_mask / add_disparity /
add_classif / add_segm run on symbolic rasters delivered by a stub reader (GDAL decoding is outside the claim)."""
import numpy as np, z3


# ------------------------------------------------------------------------------------------------ get_window
def window(cap=30, block=()):
    from vf import symscalar as SS, symnp as S, instr
    from vf.explore import EX, explore
    from vf.hutil import Collector
    import pandora.img_tools as IT
    col = Collector(cap_s=cap)
    info = {}
    B = 1 << 20

    def h():
        f = {k: SS.fresh_int(k, -B, B) for k in ('cfirst', 'clast', 'rfirst', 'rlast')}
        mg = [SS.fresh_int('m%d' % i, 0, B) for i in range(4)]
        W = SS.fresh_int('width', 1, B); H = SS.fresh_int('height', 1, B)
        EX.assume(f['cfirst'].t <= f['clast'].t); EX.assume(f['rfirst'].t <= f['rlast'].t)
        roi = {"col": {"first": f['cfirst'], "last": f['clast']}, "row": {"first": f['rfirst'], "last": f['rlast']}, "margins": mg}
        try:
            w = IT.get_window(roi, W, H)
            refused = False
        except ValueError:
            refused = True
        # statement: rows/columns [first - margin, last + margin] clipped to the image; refused iff the intersection is empty
        c_lo, c_hi = f['cfirst'].t - mg[0].t, f['clast'].t + mg[2].t
        r_lo, r_hi = f['rfirst'].t - mg[1].t, f['rlast'].t + mg[3].t
        outside = z3.Or(c_hi < 0, c_lo >= W.t, r_hi < 0, r_lo >= H.t)
        props = [("roi-refused-iff-entirely-outside-the-image", outside if refused else z3.Not(outside))]
        if not refused:
            mx = lambda a, b: z3.If(a > b, a, b); mn = lambda a, b: z3.If(a < b, a, b)
            ec0, ec1 = mx(c_lo, 0), mn(c_hi, W.t - 1); er0, er1 = mx(r_lo, 0), mn(r_hi, H.t - 1)
            iv = lambda x: x.t if isinstance(x, SS.SymInt) else z3.IntVal(int(x))
            props.append(("window-is-the-roi-with-margins-clipped-to-the-image",
                          z3.Implies(z3.Not(outside), z3.And(iv(w.col_off) == ec0, iv(w.width) == ec1 - ec0 + 1,
                                                            iv(w.row_off) == er0, iv(w.height) == er1 - er0 + 1))))
        col.check_path(props, label=('refused' if refused else 'window') + str(len(EX.trace)), extra={'window': True},
                       witnesses=[("a-roi-is-accepted", z3.BoolVal(not refused)), ("a-roi-is-refused", z3.BoolVal(refused))])
        info['fn'] = instr.fn_hash(IT.get_window)
    res, stats = explore(h, max_paths=400)
    return col.result(stats, functions=info.get('fn', {}), bounds={'ints': '|n| <= 2^20, first <= last, margins >= 0, image size >= 1'},
                      stubs=['rasterio.windows.Window executed for real (attrs class with a non-negativity validator)'])


# ------------------------------------------------------------------------------------------------ dataset building
class FakeReader:
    """stub rasterio reader delivering symbolic rasters (contract: read(...) returns the stored samples of the requested window,
    converted to out_dtype)"""
    def __init__(self, S, arr, descriptions=None, crs=None):
        self.S = S; self.arr = arr                      # SymArray (bands, rows, cols)
        self.count = arr.shape[0]; self.height = arr.shape[1]; self.width = arr.shape[2]
        self.descriptions = tuple(descriptions) if descriptions else tuple([None] * self.count)
        self.profile = {"crs": crs, "transform": "T"}

    def read(self, band=None, out_dtype=None, window=None):
        a = self.arr
        if window is not None:
            r0, c0, h, w = int(window.row_off), int(window.col_off), int(window.height), int(window.width)
            a = a[:, r0:r0 + h, c0:c0 + w]
        if band is not None:
            a = a[band - 1]
        return a.astype(out_dtype) if out_dtype is not None else a.copy()


def dataset(rows=2, cols=3, bands=1, nodata='sym', with_mask=True, with_grids=False, with_classif=False, roi=None, cap=60, block=()):
    """create_dataset_from_inputs on symbolic rasters.  nodata: 'sym' (symbolic finite float), 'nan', 'inf', '-inf'"""
    import xarray as xr
    from vf import symnp as S, instr
    from vf.explore import EX, explore
    from vf.hutil import Collector
    import pandora.img_tools as IT
    col = Collector(cap_s=cap, block=list(block))
    info = {}
    F32 = z3.Float32()

    def h():
        im = S.fresh_array('im', (bands, rows, cols), 'f4')
        col.shapes = {'im': ((bands, rows, cols), 'f4')}
        files = {'img.tif': FakeReader(S, im, descriptions=['b%d' % i for i in range(bands)] if bands > 1 else None)}
        cfg = {"img": 'img.tif'}
        if nodata == 'sym':
            nd = S.fresh_scalar('nodata', 'f8'); col.shapes['nodata'] = ((), 'f8')
            # documented: integer or NaN nodata (inf accepted by the reader code): here any finite float64 that is an integer
            EX.assume(z3.And(z3.Not(z3.fpIsNaN(nd.t)), z3.Not(z3.fpIsInf(nd.t)), z3.fpEQ(z3.fpRoundToIntegral(z3.RTZ(), nd.t), nd.t),
                             z3.fpLEQ(z3.fpAbs(nd.t), z3.FPVal(2.0 ** 20, z3.Float64()))))
            cfg["nodata"] = nd
        else:
            cfg["nodata"] = float(nodata)
        if with_mask:
            mk = S.fresh_array('mask', (1, rows, cols), 'i4'); col.shapes['mask'] = ((1, rows, cols), 'i4')
            files['mask.tif'] = FakeReader(S, mk); cfg["mask"] = 'mask.tif'
        if with_grids:
            gr = S.fresh_array('grid', (2, rows, cols), 'f4'); col.shapes['grid'] = ((2, rows, cols), 'f4')
            files['grid.tif'] = FakeReader(S, gr); cfg["disp"] = 'grid.tif'
        else:
            cfg["disp"] = [-3, 4]
        if with_classif:
            cl = S.fresh_array('classif', (2, rows, cols), 'i2'); sg = S.fresh_array('segm', (1, rows, cols), 'i2')
            col.shapes['classif'] = ((2, rows, cols), 'i2'); col.shapes['segm'] = ((1, rows, cols), 'i2')
            files['classif.tif'] = FakeReader(S, cl, descriptions=['c0', 'c1']); files['segm.tif'] = FakeReader(S, sg)
            cfg["classif"] = 'classif.tif'; cfg["segm"] = 'segm.tif'
        IT.rasterio_open = lambda path, *a, **k: files[path]
        ex = {'rows': rows, 'cols': cols, 'bands': bands, 'nodata': nodata, 'with_mask': with_mask, 'with_grids': with_grids,
              'with_classif': with_classif, 'roi': roi}
        try:
            ds = IT.create_dataset_from_inputs(cfg, roi=roi)
        except S.Unsupported:
            raise
        except Exception as e:      # noqa
            col.path_exception(e, label='p%d' % len(EX.trace), extra=ex)
            return
        # window the oracle works on
        if roi:
            c0 = max(roi["col"]["first"] - roi["margins"][0], 0); c1 = min(roi["col"]["last"] + roi["margins"][2], cols - 1)
            r0 = max(roi["row"]["first"] - roi["margins"][1], 0); r1 = min(roi["row"]["last"] + roi["margins"][3], rows - 1)
        else:
            r0, r1, c0, c1 = 0, rows - 1, 0, cols - 1
        props = []
        out = ds["im"].data
        props.append(("shape-and-coordinates-are-the-window", z3.BoolVal(
            tuple(out.shape[-2:]) == (r1 - r0 + 1, c1 - c0 + 1) and list(ds.coords["row"].data) == list(range(r0, r1 + 1))
            and list(ds.coords["col"].data) == list(range(c0, c1 + 1)) and out.dtype == np.float32)))
        if tuple(out.shape[-2:]) != (r1 - r0 + 1, c1 - c0 + 1):
            col.check_path(props, label='shape', extra=ex); return
        ndt = None if nodata != 'sym' else z3.fpToFP(z3.RNE(), cfg["nodata"].t, F32)
        any_nd = []
        has_msk = "msk" in ds.data_vars
        for r in range(r0, r1 + 1):
            for c in range(c0, c1 + 1):
                isnd_px = []
                for b in range(bands):
                    s = im._a[b, r, c].t
                    o = S.lift(out._a[(b, r - r0, c - c0) if bands > 1 else (r - r0, c - c0)], 'f4')
                    if nodata == 'sym':
                        # the comparison im == nodata is done by numpy in float64 after promotion of the float32 sample
                        isnd = z3.fpEQ(z3.fpToFP(z3.RNE(), s, z3.Float64()), cfg["nodata"].t)
                        exp = s
                    elif nodata == 'nan':
                        isnd = z3.fpIsNaN(s); exp = z3.If(isnd, z3.FPVal(-9999.0, F32), s)
                    else:
                        isnd = z3.And(z3.fpIsInf(s)); exp = z3.If(isnd, z3.FPVal(-9999.0, F32), s)
                    isnd_px.append(isnd)
                    props.append(("samples-unchanged-nodata-replaced[%d,%d,%d]" % (b, r, c), z3.Or(o == exp, z3.And(z3.fpIsNaN(o), z3.fpIsNaN(exp)))))
                nd_here = z3.Or(*isnd_px)
                any_nd.append(nd_here)
                if has_msk:
                    mv = S.lift(ds["msk"].data._a[r - r0, c - c0], 'i2')
                    inval = (mk._a[0, r, c].t != 0) if with_mask else z3.BoolVal(False)
                    exp_class = z3.If(nd_here, z3.BitVecVal(1, 16), z3.If(inval, z3.BitVecVal(2, 16), z3.BitVecVal(0, 16)))
                    # valid == attrs['valid_pixels'] (0), no data == attrs['no_data_mask'] (1), anything else == invalid
                    props.append(("mask-class[%d,%d]" % (r, c), z3.And(z3.Implies(nd_here, mv == 1), z3.Implies(z3.And(z3.Not(nd_here), inval), z3.And(mv != 0, mv != 1)),
                                                                      z3.Implies(z3.And(z3.Not(nd_here), z3.Not(inval)), mv == 0))))
        props.append(("mask-variable-present-iff-something-to-flag", (z3.Or(*any_nd) if not with_mask else z3.BoolVal(True)) if has_msk else
                      (z3.Not(z3.Or(*any_nd)) if not with_mask else z3.BoolVal(False))))
        props.append(("attributes", z3.BoolVal(ds.attrs.get("valid_pixels") == 0 and ds.attrs.get("no_data_mask") == 1 and "crs" in ds.attrs and "transform" in ds.attrs)))
        if nodata != 'sym':
            nda = ds.attrs.get("no_data_img")
            anynd = z3.Or(*any_nd)
            if isinstance(nda, (int, float)) and nda == -9999:
                props.append(("nodata-attribute", anynd))
            else:
                props.append(("nodata-attribute", z3.Not(anynd)))
        # disparity
        dd = ds["disparity"].data
        props.append(("disparity-bands", z3.BoolVal(list(ds.coords["band_disp"].data) == ["min", "max"] and tuple(dd.shape) == (2, r1 - r0 + 1, c1 - c0 + 1))))
        if with_grids:
            props.append(("disparity-grids-are-the-window-of-the-file", z3.And(*[S.term_eq(dd._a[k, r - r0, c - c0], gr._a[k, r, c], 'f4')
                                                                                for k in range(2) for r in range(r0, r1 + 1) for c in range(c0, c1 + 1)])))
        else:
            props.append(("disparity-interval-broadcast", z3.BoolVal(bool(np.all(np.asarray(dd[0].to_numpy() if isinstance(dd, S.SymArray) else dd[0]) == -3)
                                                                          and np.all(np.asarray(dd[1].to_numpy() if isinstance(dd, S.SymArray) else dd[1]) == 4)))))
        if with_classif:
            cd = ds["classif"].data; sd = ds["segm"].data
            props.append(("classif-and-segm-attached-unchanged", z3.And(*[S.term_eq(cd._a[k, r - r0, c - c0], cl._a[k, r, c], 'i2') for k in range(2)
                                                                          for r in range(r0, r1 + 1) for c in range(c0, c1 + 1)],
                                                                        *[S.term_eq(sd._a[r - r0, c - c0], sg._a[0, r, c], 'i2') for r in range(r0, r1 + 1) for c in range(c0, c1 + 1)],
                                                                        z3.BoolVal(list(ds.coords["band_classif"].data) == ['c0', 'c1']))))
        if bands > 1:
            props.append(("band-names-from-the-file", z3.BoolVal(list(ds.coords["band_im"].data) == ['b%d' % i for i in range(bands)])))
        col.check_path(props, label='p%d' % len(EX.trace), extra=ex,
                       witnesses=[("a-nodata-pixel-exists", z3.Or(*any_nd))])
        info['fn'] = instr.fn_hash(IT.create_dataset_from_inputs, IT.add_no_data, IT.add_mask, IT.add_disparity, IT.add_classif, IT.add_segm, IT.get_window)
    res, stats = explore(h, max_paths=300)
    return col.result(stats, functions=info.get('fn', {}),
                      bounds={'raster': [bands, rows, cols], 'nodata': nodata, 'mask': with_mask, 'grids': with_grids, 'classif/segm': with_classif, 'roi': roi,
                              'samples': 'any float32 incl. NaN/inf', 'mask values': 'any int32'},
                      stubs=['rasterio reader = stub returning the symbolic samples of the requested window converted to out_dtype (GDAL decoding outside the claim)'],
                      assumptions=['C16: symbolic nodata is an integer-valued finite float (documented: int or NaN)'])


def replay(cex):
    x = cex['extra']
    import pandora.img_tools as IT
    if x.get('window'):
        v = cex['inputs']
        roi = {"col": {"first": v.get('cfirst', 0), "last": v.get('clast', 0)}, "row": {"first": v.get('rfirst', 0), "last": v.get('rlast', 0)},
               "margins": [v.get('m%d' % i, 0) for i in range(4)]}
        W, H = v.get('width', 1), v.get('height', 1)
        c_lo, c_hi = roi["col"]["first"] - roi["margins"][0], roi["col"]["last"] + roi["margins"][2]
        r_lo, r_hi = roi["row"]["first"] - roi["margins"][1], roi["row"]["last"] + roi["margins"][3]
        outside = c_hi < 0 or c_lo >= W or r_hi < 0 or r_lo >= H
        try:
            w = IT.get_window(roi, W, H); refused = False
        except ValueError:
            refused = True
        bad = []
        if refused != outside:
            bad.append('roi %s on a %dx%d image is %s although it is %s the image' % (roi, W, H, 'refused' if refused else 'accepted (%s)' % (w,), 'outside' if outside else 'inside/overlapping'))
        elif not refused:
            e = (max(c_lo, 0), max(r_lo, 0), min(c_hi, W - 1) - max(c_lo, 0) + 1, min(r_hi, H - 1) - max(r_lo, 0) + 1)
            if (w.col_off, w.row_off, w.width, w.height) != e:
                bad.append('window %s, statement gives %s for roi %s' % (w, e, roi))
        return {'violates': bool(bad), 'detail': '; '.join(bad)}
    # dataset building: real code with a concrete fake reader
    inp = cex['inputs']; rows, cols, bands = x['rows'], x['cols'], x['bands']

    class R:
        def __init__(self, a, descriptions=None):
            self.a = a; self.count = a.shape[0]; self.height = a.shape[1]; self.width = a.shape[2]
            self.descriptions = tuple(descriptions) if descriptions else tuple([None] * self.count); self.profile = {"crs": None, "transform": "T"}

        def read(self, band=None, out_dtype=None, window=None):
            a = self.a
            if window is not None:
                a = a[:, int(window.row_off):int(window.row_off + window.height), int(window.col_off):int(window.col_off + window.width)]
            if band is not None:
                a = a[band - 1]
            return a.astype(out_dtype) if out_dtype is not None else a.copy()
    im = np.array(inp['im'], np.float32).reshape(bands, rows, cols)
    files = {'img.tif': R(im, ['b%d' % i for i in range(bands)] if bands > 1 else None)}
    cfg = {"img": 'img.tif', "disp": [-3, 4]}
    nd = float(np.array(inp['nodata']).reshape(-1)[0]) if x['nodata'] == 'sym' else float(x['nodata'])
    cfg["nodata"] = nd
    mk = None
    if x['with_mask']:
        mk = np.array(inp['mask'], np.int32).reshape(1, rows, cols); files['mask.tif'] = R(mk); cfg["mask"] = 'mask.tif'
    if x['with_grids']:
        files['grid.tif'] = R(np.array(inp['grid'], np.float32).reshape(2, rows, cols)); cfg["disp"] = 'grid.tif'
    if x['with_classif']:
        files['classif.tif'] = R(np.array(inp['classif'], np.int16).reshape(2, rows, cols), ['c0', 'c1']); files['segm.tif'] = R(np.array(inp['segm'], np.int16).reshape(1, rows, cols))
        cfg["classif"] = 'classif.tif'; cfg["segm"] = 'segm.tif'
    IT.rasterio_open = lambda path, *a, **k: files[path]
    roi = x['roi']
    try:
        ds = IT.create_dataset_from_inputs(cfg, roi=roi)
    except Exception as e:      # noqa
        return {'violates': True, 'detail': 'create_dataset_from_inputs raised %r' % (e,)}
    if roi:
        c0 = max(roi["col"]["first"] - roi["margins"][0], 0); c1 = min(roi["col"]["last"] + roi["margins"][2], cols - 1)
        r0 = max(roi["row"]["first"] - roi["margins"][1], 0); r1 = min(roi["row"]["last"] + roi["margins"][3], rows - 1)
    else:
        r0, r1, c0, c1 = 0, rows - 1, 0, cols - 1
    bad = []
    out = ds["im"].data.reshape(bands, r1 - r0 + 1, c1 - c0 + 1) if ds["im"].data.size == bands * (r1 - r0 + 1) * (c1 - c0 + 1) else None
    if out is None:
        return {'violates': True, 'detail': 'shape %s for window rows %d..%d cols %d..%d' % (ds["im"].shape, r0, r1, c0, c1)}
    sub = im[:, r0:r1 + 1, c0:c1 + 1]
    isnd = np.isnan(sub) if np.isnan(nd) else (np.isinf(sub) if np.isinf(nd) else sub.astype(np.float64) == nd)
    exp = np.where(isnd, np.float32(-9999), sub) if (np.isnan(nd) or np.isinf(nd)) else sub
    if not np.array_equal(out, exp, equal_nan=True):
        bad.append('samples changed: %s -> %s' % (sub.tolist(), out.tolist()))
    ndpx = isnd.any(axis=0)
    if "msk" in ds.data_vars:
        m = ds["msk"].data
        inval = (mk[0, r0:r1 + 1, c0:c1 + 1] != 0) if mk is not None else np.zeros_like(ndpx)
        for r in range(m.shape[0]):
            for c in range(m.shape[1]):
                cls = 'nodata' if ndpx[r, c] else ('invalid' if inval[r, c] else 'valid')
                got = 'nodata' if m[r, c] == 1 else ('valid' if m[r, c] == 0 else 'invalid')
                if cls != got:
                    bad.append('pixel (%d,%d) is %s in msk, statement says %s (sample %s, mask value %s, nodata %r)' % (
                        r, c, got, cls, sub[:, r, c].tolist(), None if mk is None else int(mk[0, r0 + r, c0 + c]), nd))
    elif ndpx.any() or mk is not None:
        bad.append('no msk variable although there is something to flag')
    if list(ds.coords["row"].data) != list(range(r0, r1 + 1)) or list(ds.coords["col"].data) != list(range(c0, c1 + 1)):
        bad.append('coordinates %s / %s' % (list(ds.coords["row"].data), list(ds.coords["col"].data)))
    known = None
    return {'violates': bool(bad), 'detail': '; '.join(bad[:3]), 'known': known}
