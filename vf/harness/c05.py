"""C05 / C20 harnesses: the real check_conf of every built-in step class and the real PandoraMachine.check_conf /
check_pipeline_section executed with typed symbolic Python scalars (vf.symscalar), all paths explored by the DSE."""
import copy
import numpy as np, z3

F64 = z3.Float64()


def _fv(v):
    return z3.FPVal(v, F64)


def _finite(t):
    return z3.Not(z3.Or(z3.fpIsNaN(t), z3.fpIsInf(t)))


# ---- documented domains (transcribed from docs/source/userguide/step_by_step/*.rst and the property statement) -------------
def odd_pos(t): return z3.And(t > 0, t % 2 == 1)
def pos_i(t): return t > 0
def nonneg_i(t): return t >= 0
def gt1_i(t): return t > 1
def census_ws(t): return z3.Or(t == 3, t == 5)
def subpix_dom(t): return z3.Or(t == 1, z3.And(t > 0, t % 2 == 0))
def step_dom(t): return t == 1
def pos_f(t): return z3.fpGT(t, _fv(0.0))
def open01(t): return z3.And(z3.fpGT(t, _fv(0.0)), z3.fpLT(t, _fv(1.0)))
def closed01(t): return z3.And(z3.fpGEQ(t, _fv(0.0)), z3.fpLEQ(t, _fv(1.0)))
def any_f(t): return z3.BoolVal(True)
def any_i(t): return z3.BoolVal(True)


MC_COMMON = {'subpix': ('int', subpix_dom, 1), 'step': ('int', step_dom, 1)}
CLASSES = {
    'sad': dict(kind='matching_cost', key='matching_cost_method', params=dict(window_size=('int', odd_pos, 5), **MC_COMMON), fixed={'band': None}),
    'ssd': dict(kind='matching_cost', key='matching_cost_method', params=dict(window_size=('int', odd_pos, 5), **MC_COMMON), fixed={'band': None}),
    'zncc': dict(kind='matching_cost', key='matching_cost_method', params=dict(window_size=('int', odd_pos, 5), **MC_COMMON), fixed={'band': None}),
    'census': dict(kind='matching_cost', key='matching_cost_method', params=dict(window_size=('int', census_ws, 5), **MC_COMMON), fixed={'band': None}),
    'cbca': dict(kind='aggregation', key='aggregation_method', params={'cbca_intensity': ('float', pos_f, 30.0), 'cbca_distance': ('int', pos_i, 5)}),
    'wta': dict(kind='disparity', key='disparity_method', params={'invalid_disparity': ('intfloat', any_f, -9999)}),
    'vfit': dict(kind='refinement', key='refinement_method', params={}),
    'quadratic': dict(kind='refinement', key='refinement_method', params={}),
    'median': dict(kind='filter', key='filter_method', params={'filter_size': ('int', odd_pos, 3)}),
    'bilateral': dict(kind='filter', key='filter_method', params={'sigma_color': ('float', pos_f, 2.0), 'sigma_space': ('float', pos_f, 6.0)}),
    'median_for_intervals': dict(kind='filter', key='filter_method',
                                 params={'filter_size': ('int', odd_pos, 3), 'ambiguity_threshold': ('float', closed01, 0.6),
                                         'ambiguity_kernel_size': ('int', odd_pos, 5), 'vertical_depth': ('int', nonneg_i, 0),
                                         'quantile_regularization': ('float', closed01, 1.0)},
                                 fixed={'interval_indicator': '', 'regularization': False, 'ambiguity_indicator': ''}),
    'cross_checking_accurate': dict(kind='validation', key='validation_method', params={'cross_checking_threshold': ('intfloat', any_f, 1.0)}),
    'ambiguity': dict(kind='cost_volume_confidence', key='confidence_method',
                      params={'eta_max': ('float', open01, 0.7), 'eta_step': ('float', open01, 0.01)}, fixed={'normalization': True}),
    'risk': dict(kind='cost_volume_confidence', key='confidence_method', params={'eta_max': ('float', open01, 0.7), 'eta_step': ('float', open01, 0.01)}),
    'interval_bounds': dict(kind='cost_volume_confidence', key='confidence_method',
                            params={'possibility_threshold': ('float', closed01, 0.9), 'ambiguity_threshold': ('float', closed01, 0.6),
                                    'ambiguity_kernel_size': ('int', odd_pos, 5), 'vertical_depth': ('int', nonneg_i, 0),
                                    'quantile_regularization': ('float', closed01, 1.0)},
                            fixed={'regularization': False, 'ambiguity_indicator': ''}),
    'std_intensity': dict(kind='cost_volume_confidence', key='confidence_method', params={}),
    'fixed_zoom_pyramid': dict(kind='multiscale', key='multiscale_method',
                               params={'num_scales': ('int', gt1_i, 2), 'scale_factor': ('int', gt1_i, 2), 'marge': ('int', nonneg_i, 1)}),
}


def _ctor(kind):
    from pandora import matching_cost, aggregation, disparity, refinement, validation, cost_volume_confidence, multiscale
    from pandora.filter import AbstractFilter
    from vf.ch.stubs import Img
    if kind == 'matching_cost':
        return lambda u: matching_cost.AbstractMatchingCost(**u)
    if kind == 'aggregation':
        return lambda u: aggregation.AbstractAggregation(**u)
    if kind == 'disparity':
        return lambda u: disparity.AbstractDisparity(**u)
    if kind == 'refinement':
        return lambda u: refinement.AbstractRefinement(**u)
    if kind == 'filter':
        return lambda u: AbstractFilter(cfg=u, image_shape=(40, 50), step=1)
    if kind == 'validation':
        return lambda u: validation.AbstractValidation(**u)
    if kind == 'cost_volume_confidence':
        return lambda u: cost_volume_confidence.AbstractCostVolumeConfidence(**u)
    if kind == 'multiscale':
        return lambda u: multiscale.AbstractMultiscale(Img(), Img(disparity_source=None, has_disp=False), **u)
    raise KeyError(kind)


def _fresh(SS, name, typ, wrong=False):
    """symbolic value of the declared type (wrong=True: of the *other* numeric type -- must be rejected)"""
    if typ == 'int':
        return SS.fresh_float(name) if wrong else SS.fresh_int(name)
    if typ == 'float':
        return SS.fresh_int(name) if wrong else SS.fresh_float(name)
    return SS.fresh_float(name) if wrong else SS.fresh_int(name)       # intfloat: both accepted


def step_class(cls, params, wrong=(), cap=30, block=(), pre=()):
    """one class, the listed parameters symbolic (the others omitted -> defaults).  pre: [(class name, concrete cfg)] step classes
    instantiated (successfully or not) earlier in the same process (C18: no dependence on what was checked before)"""
    from vf import symscalar as SS, symnp as S, instr
    from vf.explore import EX, explore
    from vf.hutil import Collector
    spec = CLASSES[cls]
    col = Collector(cap_s=cap)
    info = {}
    ctor = _ctor(spec['kind'])

    def h():
        user = {spec['key']: cls}
        vals = {}
        for p in params:
            typ, dom, default = spec['params'][p]
            v = _fresh(SS, p, typ, wrong=p in wrong)
            vals[p] = v; user[p] = v
        user0 = dict(user)
        keys0 = list(user)
        ex = {'cls': cls, 'params': list(params), 'wrong': list(wrong), 'pre': [list(x) for x in pre]}
        col.names = list(params)
        for pc, pcfg in pre:
            try:
                _ctor(CLASSES[pc]['kind'])(dict({CLASSES[pc]['key']: pc}, **pcfg))
            except S.Unsupported:
                raise
            except Exception:      # noqa: a refused earlier configuration is part of the history
                pass
        try:
            obj = ctor(user)
            accepted = True
        except S.Unsupported:
            raise
        except Exception as e:      # noqa: any exception before processing is a refusal
            accepted = False; err = e
        # documented domain of the supplied values
        dom_terms = []
        for p in params:
            typ, dom, default = spec['params'][p]
            v = vals[p]
            if p in wrong and typ != 'intfloat':
                dom_terms.append(z3.BoolVal(False))          # a value of the wrong numeric type is outside the domain
            elif typ == 'intfloat':
                dom_terms.append(z3.BoolVal(True))
            else:
                dom_terms.append(dom(v.t))
        in_domain = z3.And(*dom_terms) if dom_terms else z3.BoolVal(True)
        props = [("accepted-iff-inside-documented-domain", in_domain if accepted else z3.Not(in_domain))]
        if accepted:
            cfg = obj.cfg
            same = all(cfg.get(p) is vals[p] for p in params)
            props.append(("supplied-values-kept", z3.BoolVal(bool(same))))
            props.append(("supplied-keys-keep-their-position", z3.BoolVal(list(cfg)[:len(keys0)] == keys0)))
            dflt_ok = True
            for p, (typ, dom, default) in spec['params'].items():
                if p not in params:
                    got = cfg.get(p, '<missing>')
                    if not (got == default and type(got) is type(default)):
                        dflt_ok = False
            for p, default in spec.get('fixed', {}).items():
                if not (p in cfg and cfg[p] == default):
                    dflt_ok = False
            props.append(("omitted-parameters-get-documented-defaults", z3.BoolVal(dflt_ok)))
            if spec['kind'] != 'filter':
                props.append(("user-dictionary-not-mutated", z3.BoolVal(list(user) == keys0 and all(user[k] is user0[k] for k in keys0))))
            # idempotence: checking the returned configuration returns it unchanged
            try:
                again = ctor(dict(cfg)).cfg
                props.append(("checking-again-is-the-identity", z3.BoolVal(list(again) == list(cfg) and all(again[k] is cfg[k] or again[k] == cfg[k] or (again[k] != again[k] and cfg[k] != cfg[k]) for k in cfg))))
            except S.Unsupported:
                raise
            except Exception as e:      # noqa
                props.append(("checking-again-is-the-identity", z3.BoolVal(False)))
        col.check_path(props, label=('acc' if accepted else 'rej') + str(len(EX.trace)), extra=ex,
                       witnesses=[("an-accepted-value-exists", z3.BoolVal(accepted))] if not wrong else [])
        info['fn'] = instr.fn_hash(type(obj).check_conf) if accepted else info.get('fn', {})
    res, stats = explore(h, max_paths=400)
    r = col.result(stats, functions=info.get('fn', {}),
                   bounds={'class': cls, 'symbolic': list(params), 'wrong_numeric_type': list(wrong), 'ints': 'unbounded', 'floats': 'any float64 incl. NaN/inf'})
    # scalar models: convert
    for cx in r['cex']:
        cx['inputs'] = {k: (v if not isinstance(v, list) else v) for k, v in cx['inputs'].items()}
    return r


def _patch_json_checker():
    """json_checker's Or() filters alternatives by the *exact* type of the value (`data is type(value)`): make it see the
    symbolic scalars as their base types (the proxies are subclasses of int / float only for technical reasons)"""
    import json_checker.core.checkers as jc
    from vf import symscalar as SS
    from types import FunctionType

    def filtered_by_type(expected_data, _type):
        _type = int if _type is SS.SymInt else (float if _type is SS.SymFloat else _type)
        for data in expected_data:
            if isinstance(data, (_type, FunctionType)) or data is _type:
                yield data
    jc.filtered_by_type = filtered_by_type
    jc.format_data = lambda *a, **k: 'x'
    jc.format_error_message = lambda *a, **k: 'x'


try:
    _patch_json_checker()
except Exception:      # noqa (plain replay workers do not need it)
    pass


def replay(cex):
    """re-run the real constructor (uninstrumented) on the concrete model values"""
    x = cex['extra']
    if x.get('pipeline'):
        return replay_pipeline(cex)
    spec = CLASSES[x['cls']]
    ctor = _ctor(spec['kind'])
    user = {spec['key']: x['cls']}
    inside = True
    for p in x['params']:
        typ, dom, default = spec['params'][p]
        v = cex['inputs'].get(p)
        if v is None:
            v = 0 if typ != 'float' else 0.0
        user[p] = v
        if p in x['wrong'] and typ != 'intfloat':
            inside = False
        elif typ != 'intfloat':
            t = z3.IntVal(int(v)) if typ == 'int' else z3.FPVal(float(v), F64)
            inside = inside and bool(z3.is_true(z3.simplify(dom(t))))
    user0 = copy.deepcopy(user)
    for pc, pcfg in x.get('pre', []):
        try:
            _ctor(CLASSES[pc]['kind'])(dict({CLASSES[pc]['key']: pc}, **pcfg))
        except Exception:      # noqa
            pass
    try:
        obj = ctor(dict(user)); acc = True
    except Exception as e:      # noqa
        acc = False; err = repr(e)
    bad = []
    if acc != inside:
        bad.append('%s(%s) is %s but the value is %s the documented domain' % (x['cls'], user0, 'accepted' if acc else 'rejected (%s)' % err[:80], 'inside' if inside else 'outside'))
    if acc:
        cfg = obj.cfg
        for p in x['params']:
            if not (cfg.get(p) == user0[p] or (cfg.get(p) != cfg.get(p) and user0[p] != user0[p])):
                bad.append('supplied %s=%r became %r' % (p, user0[p], cfg.get(p)))
        for p, (typ, dom, default) in spec['params'].items():
            if p not in x['params'] and not (cfg.get(p, '<missing>') == default):
                bad.append('default of %s is %r, documented %r' % (p, cfg.get(p, '<missing>'), default))
        if list(cfg)[:len(user0)] != list(user0):
            bad.append('key order changed: %s' % list(cfg))
        try:
            again = ctor(dict(cfg)).cfg
            if list(again) != list(cfg):
                bad.append('second check changes the configuration')
        except Exception as e:      # noqa
            bad.append('checked configuration rejected when checked again: %r' % (e,))
    return {'violates': bool(bad), 'detail': '; '.join(bad[:3])}


# ------------------------------------------------------------------------------------------------ pipeline level (C05 + C20)
def _uniform(v):
    return {"left": v, "up": v, "right": v, "down": v}


def pipeline(variant='median', cap=30, block=(), with_validation=True):
    """real PandoraMachine + check_pipeline_section with real step classes; window_size, filter sizes / sigma, threshold symbolic.
    Obligations: accepted iff every value is inside its domain; returned configuration keeps the user's keys/values/order and
    completes defaults; the user's dictionary is not mutated; a second check of the returned pipeline returns it unchanged;
    margins == documented function of the parameters (C20), unaffected by the second (right/left) round and by a second check."""
    from vf import symscalar as SS, symnp as S, instr
    from vf.explore import EX, explore
    from vf.hutil import Collector
    from vf.ch.stubs import Img
    import pandora.check_configuration as CC
    from pandora.state_machine import PandoraMachine
    col = Collector(cap_s=cap)
    info = {}
    ROWS, COLS = (40, 50) if variant != 'bilateral' else (40, 12)       # bilateral: fewer columns than rows and than int(3 sigma + 1)

    def h():
        B = 1 << 31
        ws = SS.fresh_int('window_size', -B, B); thr = SS.fresh_float('cross_checking_threshold')
        pipe = {"matching_cost": {"matching_cost_method": "sad", "window_size": ws},
                "disparity": {"disparity_method": "wta", "invalid_disparity": "NaN"},
                "refinement": {"refinement_method": "vfit"}}
        doms = [odd_pos(ws.t)]
        if variant == 'median':
            f1 = SS.fresh_int('filter_size', -B, B); f2 = SS.fresh_int('filter_size_1', -B, B)
            pipe["filter"] = {"filter_method": "median", "filter_size": f1}
            pipe["filter.1"] = {"filter_method": "median", "filter_size": f2}
            doms += [odd_pos(f1.t), odd_pos(f2.t)]
        elif variant == 'bilateral':
            sg = SS.fresh_dyadic('sigma_space', 8, -100000, 100000)       # multiples of 1/8 (NaN/inf sigma: single-class harness)
            pipe["filter"] = {"filter_method": "bilateral", "sigma_space": sg}
            doms += [sg.r > 0]
        elif variant == 'cbca':
            inten = SS.fresh_float('cbca_intensity'); dist = SS.fresh_int('cbca_distance', -B, B)
            pipe = {"matching_cost": pipe["matching_cost"], "aggregation": {"aggregation_method": "cbca", "cbca_intensity": inten, "cbca_distance": dist},
                    "disparity": pipe["disparity"], "refinement": pipe["refinement"]}
            doms += [pos_f(inten.t), pos_i(dist.t)]
        if with_validation:
            pipe["validation"] = {"validation_method": "cross_checking_accurate", "cross_checking_threshold": thr}
        user = {"pipeline": pipe}
        snapshot = {k: dict(v) for k, v in pipe.items()}
        m = PandoraMachine()
        L, R = Img(ROWS, COLS), Img(ROWS, COLS, disparity_source=None, has_disp=False)
        ex = {'pipeline': True, 'variant': variant, 'with_validation': with_validation}
        try:
            out = CC.check_pipeline_section(user, L, R, m)
            accepted = True
        except S.Unsupported:
            raise
        except Exception as e:      # noqa
            accepted = False
        in_domain = z3.And(*doms)
        props = [("pipeline-accepted-iff-every-parameter-inside-its-domain", in_domain if accepted else z3.Not(in_domain))]
        # the user's dictionary is never mutated (accepted or not)
        unchanged = list(pipe) == list(snapshot) and all(list(pipe[k]) == list(snapshot[k]) and all(pipe[k][p] is snapshot[k][p] for p in snapshot[k]) for k in snapshot)
        props.append(("user-dictionary-not-mutated", z3.BoolVal(bool(unchanged))))
        # the same through the machine API (library / notebook use), with optional parameters omitted in every step
        user2 = {"pipeline": {"matching_cost": {"matching_cost_method": "census"}, "disparity": {"disparity_method": "wta"},
                              "filter": {"filter_method": "median"}, "refinement": {"refinement_method": "vfit"}, "filter.1": {"filter_method": "bilateral"}}}
        snap2 = copy.deepcopy(user2)
        try:
            PandoraMachine().check_conf(user2, Img(ROWS, COLS), Img(ROWS, COLS, disparity_source=None, has_disp=False))
            ok2 = (user2 == snap2 and [list(v) for v in user2["pipeline"].values()] == [list(v) for v in snap2["pipeline"].values()])
        except S.Unsupported:
            raise
        except Exception:      # noqa
            ok2 = False
        props.append(("machine-api-check-does-not-mutate-the-user-dictionary", z3.BoolVal(bool(ok2))))
        if accepted:
            op = out["pipeline"]
            props.append(("steps-keep-their-order", z3.BoolVal(list(op) == list(pipe))))
            kept = all(list(op[k])[:len(snapshot[k])] == list(snapshot[k]) for k in snapshot)
            vals_ok = all((op[k][p] is snapshot[k][p]) or (p == 'invalid_disparity' and op[k][p] != op[k][p]) or op[k][p] == snapshot[k][p]
                          for k in snapshot for p in snapshot[k])
            props.append(("supplied-keys-values-positions-kept", z3.BoolVal(bool(kept and vals_ok))))
            d = op["matching_cost"]
            props.append(("defaults-completed", z3.BoolVal(d.get("subpix") == 1 and d.get("band") is None and d.get("step") == 1
                                                           and (op["validation"].get("cross_checking_threshold") is thr if with_validation else True))))
            # ---- margins (C20)
            md = m.margins.to_dict()
            half = (ws - 1) // 2
            cum = {"matching_cost": half, "disparity": 0, "refinement": 0}
            if variant == 'cbca':
                cum = {"matching_cost": half, "aggregation": 0, "disparity": 0, "refinement": 0}
            non = {}
            if variant == 'median':
                non = {"filter": f1, "filter.1": f2}
            elif variant == 'bilateral':
                k3 = z3.ToInt(3 * sg.r + 1)          # positive on accepted paths: truncation == floor
                non = {"filter": SS.SymInt(z3.If(k3 < min(ROWS, COLS), k3, z3.IntVal(min(ROWS, COLS))))}
            okm = []
            okm.append(z3.BoolVal(list(md["cumulative margins"]) == list(cum) and list(md["non-cumulative margins"]) == list(non)))
            for k, v in cum.items():
                for side in ("left", "up", "right", "down"):
                    okm.append(_eq(md["cumulative margins"].get(k, {}).get(side), v))
            for k, v in non.items():
                for side in ("left", "up", "right", "down"):
                    okm.append(_eq(md["non-cumulative margins"].get(k, {}).get(side), v))
            g = half
            gt = g.t if hasattr(g, 't') else z3.IntVal(g)
            for v in non.values():
                gt = z3.If(v.t > gt, v.t, gt)
            for side in ("left", "up", "right", "down"):
                okm.append(_eq(md["global margins"][side], SS.SymInt(gt)))
                okm.append(_ge0(md["global margins"][side]))
            props.append(("margins-are-the-documented-function-of-the-pipeline", z3.And(*okm)))
            # a second check of the returned configuration returns it unchanged, margins included
            try:
                out2 = CC.check_pipeline_section(copy.deepcopy(out), L, R, m)
                same = list(out2["pipeline"]) == list(op) and all(list(out2["pipeline"][k]) == list(op[k]) for k in op)
                md2 = m.margins.to_dict()
                same = same and list(md2["cumulative margins"]) == list(md["cumulative margins"]) and list(md2["non-cumulative margins"]) == list(md["non-cumulative margins"])
                eqs = [_eq(md2["global margins"][s_], md["global margins"][s_]) for s_ in ("left", "up", "right", "down")]
                props.append(("second-check-returns-the-same-configuration-and-margins", z3.And(z3.BoolVal(bool(same)), *eqs)))
            except S.Unsupported:
                raise
            except Exception as e:      # noqa
                props.append(("second-check-returns-the-same-configuration-and-margins", z3.BoolVal(False)))
        col.check_path(props, label=('acc' if accepted else 'rej') + str(len(EX.trace)), extra=ex,
                       witnesses=[("an-accepted-pipeline-exists", z3.BoolVal(accepted))])
        info['fn'] = instr.fn_hash(CC.check_pipeline_section, CC.update_conf, PandoraMachine.check_conf, PandoraMachine.filter_check_conf,
                                   PandoraMachine.matching_cost_check_conf)
    res, stats = explore(h, max_paths=600)
    return col.result(stats, functions=info.get('fn', {}),
                      bounds={'pipeline': variant, 'with_validation': with_validation, 'symbolic': 'window_size, filter parameters, threshold',
                              'image_shape': [ROWS, COLS], 'ints': '|n| <= 2^31', 'floats': 'threshold: any float64; sigma_space: multiples of 1/8 in [-1e5, 1e5]'})


def _eq(got, want):
    """z3 Bool: got == want for python ints / SymInt"""
    from vf import symscalar as SS
    if got is None:
        return z3.BoolVal(False)
    a = got.t if isinstance(got, SS.SymInt) else z3.IntVal(int(got))
    b = want.t if isinstance(want, SS.SymInt) else z3.IntVal(int(want))
    return a == b


def _ge0(got):
    from vf import symscalar as SS
    a = got.t if isinstance(got, SS.SymInt) else z3.IntVal(int(got))
    return a >= 0


def replay_pipeline(cex):
    import pandora.check_configuration as CC
    from pandora.state_machine import PandoraMachine
    from vf.ch.stubs import Img
    x = cex['extra']; v = cex['inputs']
    ws = v.get('window_size', 5)
    pipe = {"matching_cost": {"matching_cost_method": "sad", "window_size": ws},
            "disparity": {"disparity_method": "wta", "invalid_disparity": "NaN"}, "refinement": {"refinement_method": "vfit"}}
    inside = ws > 0 and ws % 2 == 1
    non = {}
    if x['variant'] == 'median':
        f1, f2 = v.get('filter_size', 3), v.get('filter_size_1', 3)
        pipe["filter"] = {"filter_method": "median", "filter_size": f1}; pipe["filter.1"] = {"filter_method": "median", "filter_size": f2}
        inside = inside and f1 > 0 and f1 % 2 == 1 and f2 > 0 and f2 % 2 == 1
        non = {"filter": f1, "filter.1": f2}
    elif x['variant'] == 'bilateral':
        sg = v.get('sigma_space', 6.0)
        pipe["filter"] = {"filter_method": "bilateral", "sigma_space": sg}
        inside = inside and sg > 0
        if sg > 0 and sg == sg and sg < 1e6:
            non = {"filter": min(40, 12, int(3 * sg + 1))}
    elif x['variant'] == 'cbca':
        it, ds = v.get('cbca_intensity', 30.0), v.get('cbca_distance', 5)
        pipe = {"matching_cost": pipe["matching_cost"], "aggregation": {"aggregation_method": "cbca", "cbca_intensity": it, "cbca_distance": ds},
                "disparity": pipe["disparity"], "refinement": pipe["refinement"]}
        inside = inside and it > 0 and ds > 0
    if x['with_validation']:
        pipe["validation"] = {"validation_method": "cross_checking_accurate", "cross_checking_threshold": v.get('cross_checking_threshold', 1.0)}
    user = {"pipeline": pipe}; snap = copy.deepcopy(user)
    RC = (40, 50) if x['variant'] != 'bilateral' else (40, 12)
    m = PandoraMachine(); L, R = Img(*RC), Img(*RC, disparity_source=None, has_disp=False)
    bad = []
    user2 = {"pipeline": {"matching_cost": {"matching_cost_method": "census"}, "disparity": {"disparity_method": "wta"},
                          "filter": {"filter_method": "median"}, "refinement": {"refinement_method": "vfit"}, "filter.1": {"filter_method": "bilateral"}}}
    snap2 = copy.deepcopy(user2)
    try:
        PandoraMachine().check_conf(user2, Img(*RC), Img(*RC, disparity_source=None, has_disp=False))
        if repr(user2) != repr(snap2):
            bad.append('PandoraMachine.check_conf mutated the user dictionary: %s -> %s' % (snap2, user2))
    except Exception as e:      # noqa
        bad.append('PandoraMachine.check_conf raised %r on a legal pipeline with omitted optional parameters' % (e,))
    try:
        out = CC.check_pipeline_section(user, L, R, m); acc = True
    except Exception as e:      # noqa
        acc = False; err = repr(e)
    if acc != bool(inside):
        bad.append('pipeline %s is %s but its parameters are %s their documented domains' % (snap, 'accepted' if acc else 'rejected', 'inside' if inside else 'outside'))
    if repr(user) != repr(snap):
        bad.append('user dictionary mutated')
    if acc:
        op = out["pipeline"]
        if list(op) != list(pipe):
            bad.append('step order changed: %s' % list(op))
        md = m.margins.to_dict()
        half = (ws - 1) // 2
        g = max([half] + list(non.values()))
        if md["global margins"] != _uniform(g):
            bad.append('global margins %s, documented %s' % (md["global margins"], _uniform(g)))
        if {k: d_["left"] for k, d_ in md["non-cumulative margins"].items()} != non:
            bad.append('non-cumulative margins %s, documented %s' % (md["non-cumulative margins"], non))
        if md["cumulative margins"].get("matching_cost") != _uniform(half):
            bad.append('matching cost margin %s, documented %s' % (md["cumulative margins"].get("matching_cost"), half))
        try:
            out2 = CC.check_pipeline_section(copy.deepcopy(out), L, R, m)
            if repr(out2) != repr(out) or m.margins.to_dict() != md:
                bad.append('second check changes the configuration or the margins')
        except Exception as e:      # noqa
            bad.append('second check of the returned configuration raised %r' % (e,))
    return {'violates': bool(bad), 'detail': '; '.join(bad[:3])}


# ------------------------------------------------------------------------------------------------ structural variants (concrete)
def structural(cap=30, block=()):
    """finite list of wrong-type / unknown-method / string-constant / band variants through the real check_pipeline_section"""
    from vf.ch.stubs import Img
    import pandora.check_configuration as CC
    from pandora.state_machine import PandoraMachine
    bad = []; n = 0

    def run(pipe, L=None, R=None):
        m = PandoraMachine()
        L = L or Img(); R = R or Img(disparity_source=None, has_disp=False)
        user = {"pipeline": pipe}; snap = copy.deepcopy(user)
        try:
            out = CC.check_pipeline_section(user, L, R, m); acc = True
        except Exception as e:      # noqa
            out = None; acc = False
        if repr(user) != repr(snap):
            bad.append({'name': 'user-dictionary-not-mutated', 'pipe': repr(snap)})
        return acc, out
    base = lambda **mc: {"matching_cost": dict({"matching_cost_method": "sad"}, **mc), "disparity": {"disparity_method": "wta"}}
    # wrong types and unknown names are rejected
    for label, pipe in [('str window', base(window_size="5")), ('None window', base(window_size=None)), ('list window', base(window_size=[5])),
                        ('float window', base(window_size=5.0)), ('unknown method', {"matching_cost": {"matching_cost_method": "foo"}, "disparity": {"disparity_method": "wta"}}),
                        ('unknown disparity', {"matching_cost": {"matching_cost_method": "sad"}, "disparity": {"disparity_method": "wtaa"}}),
                        ('step 2', base(step=2)), ('subpix 3', base(subpix=3)), ('census 7', {"matching_cost": {"matching_cost_method": "census", "window_size": 7}, "disparity": {"disparity_method": "wta"}}),
                        ('int sigma', dict(base(), filter={"filter_method": "bilateral", "sigma_space": 3})),
                        ('str threshold', dict(base(), validation={"validation_method": "cross_checking_accurate", "cross_checking_threshold": "1"})),
                        ('bad interpolation', dict(base(), validation={"validation_method": "cross_checking_accurate", "interpolated_disparity": "foo"})),
                        ('num_scales 1', dict(base(), multiscale={"multiscale_method": "fixed_zoom_pyramid", "num_scales": 1}))]:
        n += 1
        acc, _ = run(pipe)
        if acc:
            bad.append({'name': 'outside-domain-value-rejected', 'case': label, 'pipe': repr(pipe)})
    # string constants are turned into floats, and accepted where any number is
    for label, key, step, val, chk in [('NaN invalid_disparity', 'disparity', 'invalid_disparity', 'NaN', lambda v: isinstance(v, float) and v != v),
                                       ('inf invalid_disparity', 'disparity', 'invalid_disparity', 'inf', lambda v: v == float('inf')),
                                       ('-inf invalid_disparity', 'disparity', 'invalid_disparity', '-inf', lambda v: v == float('-inf')),
                                       ('inf threshold', 'validation', 'cross_checking_threshold', 'inf', lambda v: v == float('inf'))]:
        n += 1
        pipe = dict(base())
        if key == 'validation':
            pipe['validation'] = {"validation_method": "cross_checking_accurate", step: val}
        else:
            pipe[key] = dict(pipe[key], **{step: val})
        acc, out = run(pipe)
        if not acc or not chk(out["pipeline"][key][step]):
            bad.append({'name': 'string-constant-turned-into-float', 'case': label, 'pipe': repr(pipe), 'got': repr(out and out["pipeline"][key].get(step))})
    # defaults of every class when nothing is supplied
    n += 1
    full = {"matching_cost": {"matching_cost_method": "census"}, "aggregation": {"aggregation_method": "cbca"},
            "cost_volume_confidence": {"confidence_method": "ambiguity"}, "cost_volume_confidence.1": {"confidence_method": "risk"},
            "cost_volume_confidence.2": {"confidence_method": "interval_bounds"}, "cost_volume_confidence.3": {"confidence_method": "std_intensity"},
            "disparity": {"disparity_method": "wta"}, "refinement": {"refinement_method": "quadratic"},
            "filter": {"filter_method": "median"}, "filter.1": {"filter_method": "bilateral"},
            "validation": {"validation_method": "cross_checking_accurate"}, "multiscale": {"multiscale_method": "fixed_zoom_pyramid"}}
    acc, out = run(full)
    want = {("matching_cost", "window_size"): 5, ("matching_cost", "subpix"): 1, ("aggregation", "cbca_intensity"): 30.0, ("aggregation", "cbca_distance"): 5,
            ("disparity", "invalid_disparity"): -9999, ("filter", "filter_size"): 3, ("filter.1", "sigma_color"): 2.0, ("filter.1", "sigma_space"): 6.0,
            ("cost_volume_confidence", "eta_max"): 0.7, ("cost_volume_confidence", "eta_step"): 0.01, ("cost_volume_confidence.1", "eta_max"): 0.7,
            ("validation", "cross_checking_threshold"): 1.0, ("multiscale", "num_scales"): 2, ("multiscale", "scale_factor"): 2, ("multiscale", "marge"): 1}
    if not acc:
        bad.append({'name': 'all-default-pipeline-accepted', 'pipe': repr(full)})
    else:
        for (s_, p), v in want.items():
            if out["pipeline"][s_].get(p, '<missing>') != v:
                bad.append({'name': 'documented-default', 'case': '%s.%s' % (s_, p), 'got': repr(out["pipeline"][s_].get(p, '<missing>')), 'want': repr(v)})
        if list(out["pipeline"]) != list(full):
            bad.append({'name': 'steps-keep-their-order', 'got': list(out["pipeline"])})
    # bands: a band absent from either image is refused, a band present in both is accepted
    for label, lb, rb, band, ok in [('band in both', ('r', 'g', 'b'), ('r', 'g', 'b'), 'r', True), ('band missing right', ('r', 'g', 'b'), ('g', 'b', 'n'), 'r', False),
                                    ('band missing left', ('g', 'b', 'n'), ('r', 'g', 'b'), 'r', False), ('multiband without band', ('r', 'g'), ('r', 'g'), None, False),
                                    ('monoband without band', (None,), (None,), None, True)]:
        for with_val in (False, True):
            n += 1
            pipe = base(band=band) if band else base()
            if with_val:
                pipe["validation"] = {"validation_method": "cross_checking_accurate"}
            acc, _ = run(pipe, Img(bands=lb), Img(bands=rb, disparity_source=None, has_disp=False))
            if acc != ok:
                bad.append({'name': 'band-must-exist-in-both-images', 'case': '%s (validation=%s)' % (label, with_val), 'accepted': acc})
    return {'paths': n, 'nontrivial_paths': n, 'obligations': n + 20, 'discharged': n + 20 - len(bad), 'inconclusive': [], 'queries': 0, 'solver_s': 0.0,
            'cex': [dict(b, inputs={}, extra={'structural': True, 'case': b}) for b in bad][:8], 'samples': [{'structural_cases': n}], 'witness': {},
            'bounds': {'structural variants': n}}


def replay_structural(cex):
    r = structural()
    name = cex['name']
    hit = [c for c in r['cex'] if c['name'] == name and c.get('case') == cex.get('case')]
    return {'violates': bool(hit), 'detail': repr(hit[:1])[:400]}


# ------------------------------------------------------------------------------------------------ margins of the step classes (C20)
def step_margins(part='steps', cap=30, block=()):
    from vf import symscalar as SS, symnp as S, instr
    from vf.explore import EX, explore
    from vf.hutil import Collector
    from pandora.filter import AbstractFilter
    from pandora.margins import Margins, GlobalMargins, max_margins
    from pandora import aggregation, disparity, refinement, matching_cost, optimization
    col = Collector(cap_s=cap)
    info = {}
    B = 1 << 20

    def h():
        props = []
        if part == 'global':
            return h_global(props)
        fs = SS.fresh_int('filter_size', 1, B); step = SS.fresh_int('step', 1, 64)
        rows = SS.fresh_int('rows', 1, B); cols = SS.fresh_int('cols', 1, B)
        sg = SS.fresh_dyadic('sigma_space', 8, 0, 1000)
        EX.assume(fs.t % 2 == 1); EX.assume(sg.r > 0)
        for meth in ('median', 'median_for_intervals'):
            f = AbstractFilter(cfg={"filter_method": meth, "filter_size": fs}, image_shape=(rows, cols), step=step)
            mg = f.margins
            props.append(("%s-margin-is-filter_size-times-step" % meth, z3.And(*[_eq(getattr(mg, s_), SS.SymInt(fs.t * step.t)) for s_ in ("left", "up", "right", "down")])))
        fb = AbstractFilter(cfg={"filter_method": "bilateral", "sigma_space": sg}, image_shape=(rows, cols), step=step)
        mb = fb.margins
        k3 = z3.ToInt(3 * sg.r + 1)
        mn = z3.If(rows.t < cols.t, rows.t, cols.t); mn = z3.If(k3 < mn, k3, mn)
        props.append(("bilateral-margin-is-min(rows,cols,int(3sigma+1))-times-step", z3.And(*[_eq(getattr(mb, s_), SS.SymInt(mn * step.t)) for s_ in ("left", "up", "right", "down")])))
        half = SS.fresh_int('half', 0, B)
        mc = matching_cost.AbstractMatchingCost(**{"matching_cost_method": "zncc", "window_size": 2 * half + 1})
        props.append(("matching-cost-margin-is-half-window", z3.And(*[_eq(getattr(mc.margins, s_), half) for s_ in ("left", "up", "right", "down")])))
        zero = all(m.margins == Margins(0, 0, 0, 0) for m in (aggregation.AbstractAggregation(**{"aggregation_method": "cbca"}),
                                                               disparity.AbstractDisparity(**{"disparity_method": "wta"}),
                                                               refinement.AbstractRefinement(**{"refinement_method": "vfit"}),
                                                               refinement.AbstractRefinement(**{"refinement_method": "quadratic"})))
        props.append(("aggregation-disparity-refinement-margins-are-zero", z3.BoolVal(bool(zero))))
        props.append(("optimization-margin-is-40", z3.BoolVal(optimization.AbstractOptimization.__dict__['margins'].value == Margins(40, 40, 40, 40))))
        col.check_path(props, label='p%d' % len(EX.trace), extra={'margins': True}, witnesses=[("reached", z3.BoolVal(True))])
        info['fn'] = instr.fn_hash(type(fb).margins.fget, type(f).margins.fget)

    def h_global(props):
        # global margins: per side the larger of the sum of the cumulative ones and each non-cumulative one; monotone; non-negative
        a, b, c, n1, n2 = [SS.fresh_int(x, 0, B) for x in ('a', 'b', 'c', 'n1', 'n2')]
        g = GlobalMargins()
        g.add_cumulative("s1", Margins(a, b, c, a)); g.add_cumulative("s2", Margins(b, c, a, b))
        g.add_non_cumulative("f1", Margins(n1, n1, n2, n2)); g.add_non_cumulative("f2", Margins(n2, n1, n2, n1))
        gm = g.global_margins

        def mx(*ts):
            r = ts[0]
            for t in ts[1:]:
                r = z3.If(t > r, t, r)
            return r
        want = (mx(a.t + b.t, n1.t, n2.t), mx(b.t + c.t, n1.t, n1.t), mx(c.t + a.t, n2.t, n2.t), mx(a.t + b.t, n2.t, n1.t))
        props.append(("global-margins-are-max-of-cumulative-sum-and-each-non-cumulative", z3.And(*[_eq(getattr(gm, s_), SS.SymInt(w)) for s_, w in zip(("left", "up", "right", "down"), want)])))
        g.add_cumulative("s3", Margins(c, 0, n1, c)); g.add_non_cumulative("f3", Margins(a, b, c, n2))
        g2 = g.global_margins
        props.append(("adding-a-step-never-lowers-a-margin", z3.And(*[_ival(getattr(g2, s_)) >= _ival(getattr(gm, s_)) for s_ in ("left", "up", "right", "down")])))
        props.append(("margins-non-negative", z3.And(*[_ival(getattr(gm, s_)) >= 0 for s_ in ("left", "up", "right", "down")])))
        col.check_path(props, label='p%d' % len(EX.trace), extra={'margins': True}, witnesses=[("reached", z3.BoolVal(True))])
        info['fn'] = instr.fn_hash(GlobalMargins.add_cumulative, max_margins)
    res, stats = explore(h, max_paths=400)
    return col.result(stats, functions=info.get('fn', {}), bounds={'ints': '<= 2^20', 'step': '1..64', 'sigma_space': 'multiples of 1/8 in (0, 1000]'})


def _ival(x):
    from vf import symscalar as SS
    return x.t if isinstance(x, SS.SymInt) else z3.IntVal(int(x))


def replay_margins(cex):
    """step-class margins on the concrete model values, real code"""
    from pandora.filter import AbstractFilter
    from pandora.margins import Margins, GlobalMargins
    from pandora import matching_cost, optimization
    v = cex['inputs']; bad = []
    fs, step, rows, cols = v.get('filter_size', 3), v.get('step', 1), v.get('rows', 40), v.get('cols', 50)
    sg = v.get('sigma_space', 1.0)
    if 'filter_size' in v:
        for meth in ('median', 'median_for_intervals'):
            m = AbstractFilter(cfg={"filter_method": meth, "filter_size": fs}, image_shape=(rows, cols), step=step).margins
            if m != Margins(*[fs * step] * 4):
                bad.append('%s margins %s, documented %d' % (meth, m, fs * step))
        mb = AbstractFilter(cfg={"filter_method": "bilateral", "sigma_space": float(sg)}, image_shape=(rows, cols), step=step).margins
        w = min(rows, cols, int(3 * sg + 1)) * step
        if mb != Margins(w, w, w, w):
            bad.append('bilateral margins %s, documented %d' % (mb, w))
        half = v.get('half', 2)
        mm = matching_cost.AbstractMatchingCost(**{"matching_cost_method": "zncc", "window_size": 2 * half + 1}).margins
        if mm != Margins(half, half, half, half):
            bad.append('matching cost margins %s, documented %d' % (mm, half))
        if optimization.AbstractOptimization.__dict__['margins'].value != Margins(40, 40, 40, 40):
            bad.append('optimization margin is not 40')
    if 'a' in v:
        a, b, c, n1, n2 = [v.get(k, 0) for k in ('a', 'b', 'c', 'n1', 'n2')]
        g = GlobalMargins()
        g.add_cumulative("s1", Margins(a, b, c, a)); g.add_cumulative("s2", Margins(b, c, a, b))
        g.add_non_cumulative("f1", Margins(n1, n1, n2, n2)); g.add_non_cumulative("f2", Margins(n2, n1, n2, n1))
        gm = g.global_margins
        want = Margins(max(a + b, n1, n2), max(b + c, n1, n1), max(c + a, n2, n2), max(a + b, n2, n1))
        if gm != want:
            bad.append('global margins %s, documented %s' % (gm, want))
        g.add_cumulative("s3", Margins(c, 0, n1, c)); g.add_non_cumulative("f3", Margins(a, b, c, n2))
        g2 = g.global_margins
        if any(x < y for x, y in zip(g2.astuple(), gm.astuple())):
            bad.append('adding a step lowered a margin: %s -> %s' % (gm, g2))
    return {'violates': bool(bad), 'detail': '; '.join(bad[:3])}
