"""C15 numerics: the real FixedZoomPyramid.disparity_range (+ AbstractMultiscale.mask_invalid_disparities, sliding_window, the chunk loop,
scipy zoom order 0) on a symbolic coarse disparity map and validity mask, and the interval scaling done by the state machine."""
import numpy as np, z3

INVALID = 0b01111000011


def zoom_model(S):
    """scipy.ndimage.zoom(order=0) moves samples without arithmetic: the real zoom is run on an index array and the symbolic
    samples are gathered accordingly (exact, data independent)"""
    from scipy.ndimage import zoom as real_zoom

    def zoom(a, factor, order=0, **kw):
        if not isinstance(a, S.SymArray):
            return real_zoom(a, factor, order=order, **kw)
        if order != 0:
            raise S.Unsupported('zoom order %r on symbolic data' % (order,))
        idx = real_zoom(np.arange(a._a.size, dtype=np.float64).reshape(a.shape), factor, order=0, **kw)
        flat = a._a.reshape(-1)
        out = np.empty(idx.shape, dtype=object)
        for p in np.ndindex(*idx.shape):
            out[p] = flat[int(idx[p])]
        return S.SymArray(out, a.kind)
    return zoom


def disparity_range(R=3, C=3, ws=3, marge=1, sf=2, dmin=-3, dmax=4, sym_mask=4, seed=0, cap=60, block=(), user='scalar'):
    import xarray as xr
    from vf import symnp as S, instr
    from vf.explore import EX, explore
    from vf.hutil import Collector
    from vf.ch.stubs import Img
    from pandora import multiscale
    import pandora.multiscale.fixed_zoom_pyramid as FZ, pandora.multiscale.multiscale as MS
    col = Collector(cap_s=cap, block=list(block))
    info = {}
    S.MODE['exact'] = True
    FZ.zoom = zoom_model(S)
    off = (ws - 1) // 2

    def h():
        rng = np.random.RandomState(seed)
        d = S.fresh_array('d', (R, C), 'x4', scale=4)
        for e in d._a.flat:
            EX.assume(z3.And(e.t.val >= dmin, e.t.val <= dmax))
        mb = np.where(rng.rand(R, C) < 0.3, rng.choice([1, 2, 64, 128, 256, 512, 4, 8, 16, 32, 1024, 2048], size=(R, C)), 0).astype(np.uint16)
        m = S.SymArray(mb, 'u2')
        cells = [(r, c) for r in range(R) for c in range(C)]
        rng.shuffle(cells)
        symc = sorted(cells[:sym_mask])
        ms_ = S.fresh_array('m', (len(symc),), 'u2')
        for i, p in enumerate(symc):
            m._a[p] = ms_._a[i]
            EX.assume(z3.ULT(ms_._a[i].t, z3.BitVecVal(4096, 16)))
        col.shapes = {'d': ((R, C), 'x4'), 'm': ((len(symc),), 'u2')}
        ds = xr.Dataset({"disparity_map": (["row", "col"], d), "validity_mask": (["row", "col"], m)}, coords={"row": np.arange(R), "col": np.arange(C)})
        ds.attrs = {"window_size": ws, "offset_row_col": off}
        ms = multiscale.AbstractMultiscale(Img(), Img(disparity_source=None, has_disp=False),
                                           **{"multiscale_method": "fixed_zoom_pyramid", "num_scales": 2, "scale_factor": sf, "marge": marge})
        if user == 'scalar':
            umin, umax = dmin * sf, dmax * sf
        else:      # per-pixel user grids (already multiplied by the scale factor by run_multiscale)
            umin = (np.full((R, C), dmin) + rng.randint(0, 2, size=(R, C))) * sf; umax = (np.full((R, C), dmax) - rng.randint(0, 2, size=(R, C))) * sf
        ex = {'range': True, 'R': R, 'C': C, 'ws': ws, 'marge': marge, 'sf': sf, 'dmin': dmin, 'dmax': dmax, 'mask_base': mb.tolist(), 'symc': [list(p) for p in symc],
              'user': user, 'seed': seed, 'umin': np.asarray(umin).tolist(), 'umax': np.asarray(umax).tolist()}
        d0 = d.copy(); m0 = m.copy()
        try:
            lo, hi = ms.disparity_range(ds, umin, umax)
        except S.Unsupported:
            raise
        except Exception as e:      # noqa
            col.path_exception(e, label='p%d' % len(EX.trace), extra=ex); return
        props = [("range-maps-have-scale_factor-times-the-coarse-size", z3.BoolVal(tuple(lo.shape) == (R * sf, C * sf) and tuple(hi.shape) == (R * sf, C * sf)))]
        full_lo = int(np.nanmin(umin)); full_hi = int(np.nanmax(umax))
        inv = {p: (S.lift(m0._a[p], 'u2') & INVALID) != 0 for p in np.ndindex(R, C)}

        def expected(p):
            r, c = p
            border = r < off or r >= R - off or c < off or c >= C - off
            if border:
                return z3.BoolVal(True), None, None
            win = [(rr, cc) for rr in range(r - off, r + off + 1) for cc in range(c - off, c + off + 1)]
            vals = [(z3.Not(inv[q]), S.xlift(d0._a[q]).val) for q in win]
            lo_ = S.xlift(d0._a[p]).val; hi_ = lo_
            for pv, v in vals:
                lo_ = z3.If(z3.And(pv, v < lo_), v, lo_); hi_ = z3.If(z3.And(pv, v > hi_), v, hi_)
            return inv[p], lo_ - marge, hi_ + marge
        exp = {p: expected(p) for p in np.ndindex(R, C)}
        if tuple(lo.shape) == (R * sf, C * sf):
            for (r, c) in np.ndindex(R * sf, C * sf):
                gl = S.xlift(lo._a[r, c]); gh = S.xlift(hi._a[r, c])
                alts = []
                pr, pc = r // sf, c // sf
                for qr in range(max(0, pr - 1), min(R, pr + 2)):
                    for qc in range(max(0, pc - 1), min(C, pc + 2)):
                        whole, l_, h_ = exp[(qr, qc)]
                        is_whole = z3.And(gl.tag == 0, gh.tag == 0, gl.val == full_lo, gh.val == full_hi)
                        if l_ is None:
                            alts.append(is_whole)
                        else:
                            alts.append(z3.If(whole, is_whole, z3.And(gl.tag == 0, gh.tag == 0, gl.val == l_, gh.val == h_)))
                props.append(("pixel(%d,%d)-interval-is-[min-marge,max+marge]-of-valid-window-of-a-coarse-pixel-near-its-parent-or-whole-user-interval" % (r, c),
                              z3.Or(*alts)))
                # the exact geometric parent for the centre of each sf x sf block (where the zoom has no freedom)
            props.append(("coarse-map-and-mask-not-modified", z3.And(*([S.term_eq(a, b, 'x4') for a, b in zip(ds["disparity_map"].data._a.flat, d0._a.flat)] +
                                                                           [S.term_eq(a, b, 'u2') for a, b in zip(ds["validity_mask"].data._a.flat, m0._a.flat)]))))
        inner = [p for p in symc if off <= p[0] < R - off and off <= p[1] < C - off]
        wit = [("a-symbolic-mask-pixel-is-valid", z3.Or(*[z3.Not(inv[p]) for p in symc]))]
        col.check_path(props, label='p%d' % len(EX.trace), extra=ex, witnesses=wit)
        info['fn'] = instr.fn_hash(FZ.FixedZoomPyramid.disparity_range, MS.AbstractMultiscale.mask_invalid_disparities)
    res, stats = explore(h, max_paths=5000, time_cap_s=900)
    return col.result(stats, functions=info.get('fn', {}),
                      bounds={'coarse_map': [R, C], 'window': ws, 'marge': marge, 'scale_factor': sf, 'user_interval': [dmin, dmax],
                              'symbolic_mask_pixels': sym_mask, 'disparities': 'multiples of 1/4 inside the user interval'})


def replay(cex):
    import xarray as xr
    from vf.ch.stubs import Img
    from pandora import multiscale
    x = cex['extra']; inp = cex['inputs']
    R, C, ws, marge, sf = x['R'], x['C'], x['ws'], x['marge'], x['sf']
    off = (ws - 1) // 2
    d = np.array(inp['d'], np.float32).reshape(R, C)
    m = np.array(x['mask_base'], np.uint16)
    for p, v in zip(x['symc'], inp['m']):
        m[tuple(p)] = v
    dmin, dmax = x['dmin'], x['dmax']
    umin = np.array(x['umin']) if x['user'] != 'scalar' else x['umin']; umax = np.array(x['umax']) if x['user'] != 'scalar' else x['umax']
    ds = xr.Dataset({"disparity_map": (["row", "col"], d.copy()), "validity_mask": (["row", "col"], m.copy())}, coords={"row": np.arange(R), "col": np.arange(C)})
    ds.attrs = {"window_size": ws, "offset_row_col": off}
    ms = multiscale.AbstractMultiscale(Img(), Img(disparity_source=None, has_disp=False),
                                       **{"multiscale_method": "fixed_zoom_pyramid", "num_scales": 2, "scale_factor": sf, "marge": marge})
    try:
        lo, hi = ms.disparity_range(ds, umin, umax)
    except BaseException as e:      # noqa
        return {'violates': True, 'detail': 'disparity_range raised %r' % (e,)}
    bad = []
    if lo.shape != (R * sf, C * sf):
        return {'violates': True, 'detail': 'range map shape %s for a %s coarse map and scale factor %d' % (lo.shape, (R, C), sf)}
    if not (np.array_equal(ds["disparity_map"].data, d) and np.array_equal(ds["validity_mask"].data, m)):
        bad.append('coarse map or mask modified')
    full = (int(np.nanmin(umin)), int(np.nanmax(umax)))
    inv = (m & INVALID) != 0

    def exp(r, c):
        if r < off or r >= R - off or c < off or c >= C - off or inv[r, c]:
            return full
        w = d[r - off:r + off + 1, c - off:c + off + 1][~inv[r - off:r + off + 1, c - off:c + off + 1]]
        return (float(w.min()) - marge, float(w.max()) + marge)
    for r in range(R * sf):
        for c in range(C * sf):
            pr, pc = r // sf, c // sf
            alts = [exp(qr, qc) for qr in range(max(0, pr - 1), min(R, pr + 2)) for qc in range(max(0, pc - 1), min(C, pc + 2))]
            if (float(lo[r, c]), float(hi[r, c])) not in alts:
                bad.append('fine pixel (%d,%d) searches [%s, %s]; coarse pixels near its parent (%d,%d) give %s (coarse map %s, mask %s)' %
                           (r, c, lo[r, c], hi[r, c], pr, pc, sorted(set(alts)), d.tolist(), m.tolist()))
                break
        if bad:
            break
    return {'violates': bool(bad), 'detail': '; '.join(bad)[:600]}
