"""C18: runs are reproducible and side-effect free whatever the threading.

Schedules: every `prange` kernel is executed twice on the same symbolic inputs, with the parallel loops iterating forwards and
backwards (the two extreme sequential schedules); z3 decides that the outputs are identical.  Any loop-carried state (a scalar
surviving from one iteration to the next, a shared accumulator, overlapping writes) makes the two differ.  Real thread
interleavings, numba's reduction inference and BLAS/OpenMP non-determinism cannot be executed symbolically (stated).
Inputs: the image-preparation code of a multiscale run must not modify the caller's datasets."""
import numpy as np, z3

ORDER = {'rev': False}


def _prange(*a):
    """stands in for numba.prange: forwards or backwards, and tells the access recorder (vf.instr.RACE) which iteration of the OUTERMOST
    parallel loop is running (numba distributes only the outermost prange over threads, inner ones run serially in their thread)"""
    from vf import instr
    r = range(*a)
    seq = reversed(r) if ORDER['rev'] else r
    depth = instr.RACE['depth']
    for i in seq:
        if depth == 0:
            instr.RACE['iter'] = i
        instr.RACE['depth'] = depth + 1
        try:
            yield i
        finally:
            instr.RACE['depth'] = depth
            if depth == 0:
                instr.RACE['iter'] = None


def _install_prange():
    import pandora.refinement.refinement as RF, pandora.cost_volume_confidence.ambiguity as AM, pandora.cost_volume_confidence.risk as RK
    import pandora.cost_volume_confidence.interval_bounds as IB, pandora.interval_tools as IT
    for m in (RF, AM, RK, IB, IT):
        m.prange = _prange


def order(kernel='refinement', method='vfit', measure='min', R=2, C=2, D=3, cap=120, block=(), concrete=False):
    from vf import symnp as S, instr
    from vf.explore import EX, explore
    from vf.hutil import Collector
    import pandora.refinement.refinement as RF, pandora.refinement.vfit as VF, pandora.refinement.quadratic as QD
    import pandora.cost_volume_confidence.ambiguity as AM, pandora.cost_volume_confidence.risk as RK, pandora.cost_volume_confidence.interval_bounds as IB
    import pandora.interval_tools as IT
    from vf.harness import c12
    _install_prange()
    col = Collector(cap_s=cap, block=list(block))
    info = {}
    S.MODE['exact'] = True; S.REALS['div'] = True

    def h():
        shapes = {}
        ex = {'order': kernel, 'method': method, 'measure': measure, 'R': R, 'C': C, 'D': D, 'concrete': concrete}
        if kernel in ('refinement', 'approximate_refinement'):
            cv = S.fresh_array('cv', (R, C, D), 'x4', tagged=True, tags=(0, 1), real=True); shapes['cv'] = ((R, C, D), 'x4')
            mask = S.fresh_array('m', (R, C), 'u2'); shapes['m'] = ((R, C), 'u2')
            for e in cv._a.flat:
                EX.assume(z3.And(e.t.val >= -64, e.t.val <= 64))
            for e in mask._a.flat:
                EX.assume(z3.ULT(e.t, z3.BitVecVal(4096, 16)))
            rng = np.random.RandomState(5)
            dvals = rng.randint(0, D, size=(R, C)).astype(np.float32) - 1.0
            if kernel == 'approximate_refinement':
                dvals = -dvals
            r_ = RF.AbstractRefinement(**{"refinement_method": method})
            fn = r_.loop_refinement if kernel == 'refinement' else r_.loop_approximate_refinement
            ex['disp'] = dvals.tolist()

            def run():
                c = cv.copy(); d = S.SymArray(dvals.copy(), 'x4'); m = mask.copy()
                return fn(c, d, m, -1, -1 + D - 1, 1, measure, r_.refinement_method)
        elif kernel in ('ambiguity', 'sampled_ambiguity', 'risk', 'sampled_risk', 'bounds'):
            cv = c12._cv(S, EX, R, C, D, shapes)
            if R > 1:
                # one fully symbolic pixel is enough for the value comparison; the other non-pinned pixels are concrete so that the number of
                # paths stays that of one pixel (the access sets of the race check do not depend on their values beyond the branches taken)
                rngc = np.random.RandomState(11)
                first_sym = not concrete          # concrete=True: every non-pinned pixel concrete (fast multi-row run for the access-set check)
                for (r_, c_) in np.ndindex(R, C):
                    if (r_, c_) in ((0, 0), (R - 1, C - 1)):
                        continue
                    if first_sym:
                        first_sym = False; continue
                    for d_ in range(D):
                        v_ = float(rngc.randint(4, 28)) / 4
                        if rngc.rand() < 0.15:
                            EX.assume(cv._a[r_, c_, d_].t.tag == 1); cv._a[r_, c_, d_] = np.float32('nan'); continue
                        EX.assume(z3.And(cv._a[r_, c_, d_].t.tag == 0, cv._a[r_, c_, d_].t.val == z3.RealVal(str(v_))))
                        cv._a[r_, c_, d_] = np.float32(v_)

            def run():
                c = cv.copy()
                if kernel == 'ambiguity':
                    return (AM.Ambiguity.compute_ambiguity(c, 0.0, 0.5, 0.25),)
                if kernel == 'sampled_ambiguity':
                    return AM.Ambiguity.compute_ambiguity_and_sampled_ambiguity(c, 0.0, 0.5, 0.25)
                _, samp = AM.Ambiguity.compute_ambiguity_and_sampled_ambiguity(c, 0.0, 0.5, 0.25)
                if kernel == 'risk':
                    return RK.Risk.compute_risk(c, samp, 0.0, 0.5, 0.25)
                if kernel == 'sampled_risk':
                    return RK.Risk.compute_risk_and_sampled_risk(c, samp, 0.0, 0.5, 0.25)
                return IB.IntervalBounds.compute_interval_bounds(c, np.arange(-1, -1 + D).astype(np.float32), 0.75, -1.0 if measure == 'min' else 1.0)
        else:      # graph kernels of the interval regularisation
            inf_ = S.fresh_array('inf', (R, C), 'x4', scale=4); sup_ = S.fresh_array('sup', (R, C), 'x4', scale=4); amb = S.fresh_array('amb', (R, C), 'x4', scale=8)
            shapes.update({'inf': ((R, C), 'x4'), 'sup': ((R, C), 'x4'), 'amb': ((R, C), 'x4')})
            for a, b in zip(inf_._a.flat, sup_._a.flat):
                EX.assume(z3.And(a.t.val >= -8, b.t.val <= 8, a.t.val <= b.t.val))
            for e in amb._a.flat:
                EX.assume(z3.And(e.t.val >= 0, e.t.val <= 1))

            def run():
                return IT.interval_regularization(inf_.copy(), sup_.copy(), amb.copy(), 0.6, 3, 1, 1.0)
        col.shapes = shapes
        outs = []
        races = []
        for rev in (False, True):
            ORDER['rev'] = rev
            if not rev:
                instr.race_reset()
            else:
                instr.RACE['on'] = False
            try:
                outs.append(('ok', run()))
                if not rev:
                    races = instr.race_conflicts()
            except S.Unsupported:
                ORDER['rev'] = False
                raise
            except Exception as e:      # noqa
                outs.append(('exc', type(e).__name__))
        ORDER['rev'] = False
        props = []
        (s1, o1), (s2, o2) = outs
        # data races: a memory cell written in one iteration of the distributed loop and read or written in another one (shared scratch
        # buffers, accumulators, overlapping output cells).  Decided on the access sets of this path.
        ex['races'] = [(hex(c), w, o) for c, w, o in races[:4]]
        props.append(("no-cell-is-written-by-one-parallel-iteration-and-touched-by-another", z3.BoolVal(not races)))
        ex['recorded_cells'] = [len(instr.RACE['reads']), len(instr.RACE['writes'])]
        props.append(("same-outcome-kind-for-both-schedules", z3.BoolVal(s1 == s2 and (s1 == 'ok' or o1 == o2))))
        if s1 == s2 == 'ok':
            for i, (a, b) in enumerate(zip(o1, o2)):
                fa = list(a._a.flat) if isinstance(a, S.SymArray) else list(np.asarray(a, dtype=object).flat)
                fb = list(b._a.flat) if isinstance(b, S.SymArray) else list(np.asarray(b, dtype=object).flat)
                kind = a.kind if isinstance(a, S.SymArray) else None
                eqs = []
                for x_, y_ in zip(fa, fb):
                    if isinstance(x_, S.Sym) or isinstance(y_, S.Sym):
                        k = (x_.k if isinstance(x_, S.Sym) else y_.k)
                        eqs.append(S.term_eq(x_, y_, k))
                    else:
                        eqs.append(z3.BoolVal(bool(x_ == y_ or (x_ != x_ and y_ != y_))))
                props.append(("output-%d-identical-for-forward-and-backward-schedules" % i, z3.And(*eqs) if eqs else z3.BoolVal(True)))
        col.check_path(props, label='p%d' % len(EX.trace), extra=ex,
                       witnesses=[("reached", z3.BoolVal(True)), ("array-accesses-of-the-parallel-iterations-were-recorded", z3.BoolVal(len(instr.RACE['writes']) > 0))])
        info['fn'] = instr.fn_hash(RF.AbstractRefinement.loop_refinement, RF.AbstractRefinement.loop_approximate_refinement, AM.Ambiguity.compute_ambiguity,
                                   RK.Risk.compute_risk, IB.IntervalBounds.compute_interval_bounds, IT.create_connected_graph, IT.graph_regularization)
    res, stats = explore(h, max_paths=3000, time_cap_s=900)
    return col.result(stats, functions=info.get('fn', {}),
                      bounds={'kernel': kernel, 'method': method, 'measure': measure, 'shape': [R, C, D], 'schedules': 'prange loops forwards vs backwards'},
                      assumptions=['C18: schedule independence is decided for the two extreme sequential schedules of the Python semantics of the kernels; '
                                   'real thread interleavings / numba reductions are outside the solver claim'])


def inputs_untouched(bands=0, R=3, C=3, cap=60, block=()):
    """fill_nodata_image (first step of the multiscale image preparation) must leave the caller's dataset untouched"""
    import xarray as xr
    from vf import symnp as S, instr
    from vf.explore import EX, explore
    from vf.hutil import Collector
    import pandora.img_tools as IT
    col = Collector(cap_s=cap)
    info = {}
    S.MODE['exact'] = True; S.REALS['div'] = True

    def h():
        shp = (R, C) if not bands else (bands, R, C)
        im = S.fresh_array('im', shp, 'x4', scale=1); mk = S.fresh_array('msk', (R, C), 'i2')
        col.shapes = {'im': (shp, 'x4'), 'msk': ((R, C), 'i2')}
        for e in im._a.flat:
            EX.assume(z3.And(e.t.val >= 0, e.t.val <= 255))
        # keep the exploration small: only the centre pixel's mask value is free, the others are valid
        for (r, c) in np.ndindex(R, C):
            if (r, c) != (R // 2, C // 2):
                EX.assume(mk._a[r, c].t == 0)
            else:
                EX.assume(z3.And(mk._a[r, c].t >= 0, mk._a[r, c].t <= 2))
        dims = ["row", "col"] if not bands else ["band_im", "row", "col"]
        coords = {"row": np.arange(R), "col": np.arange(C)}
        if bands:
            coords["band_im"] = ["b%d" % i for i in range(bands)]
        ds = xr.Dataset({"im": (dims, im), "msk": (["row", "col"], mk)}, coords=coords)
        ds.attrs = {"valid_pixels": 0, "no_data_mask": 1, "crs": None, "transform": None, "no_data_img": -9999}
        im0 = im.copy(); mk0 = mk.copy()
        ex = {'inputs': True, 'bands': bands, 'R': R, 'C': C}
        try:
            img, msk = IT.fill_nodata_image(ds)
        except S.Unsupported:
            raise
        except Exception as e:      # noqa
            col.path_exception(e, label='p%d' % len(EX.trace), extra=ex); return
        props = [("caller-image-samples-untouched", z3.And(*[S.term_eq(a, b, 'x4') for a, b in zip(ds["im"].data._a.flat, im0._a.flat)])),
                 ("caller-mask-untouched", z3.And(*[S.term_eq(a, b, 'i2') for a, b in zip(ds["msk"].data._a.flat, mk0._a.flat)]))]
        col.check_path(props, label='p%d' % len(EX.trace), extra=ex, witnesses=[("a-pixel-is-filled", mk0._a[R // 2, C // 2].t != 0)])
        info['fn'] = instr.fn_hash(IT.fill_nodata_image, IT.interpolate_nodata_sgm)
    res, stats = explore(h, max_paths=200)
    return col.result(stats, functions=info.get('fn', {}), bounds={'image': [bands or 1, R, C], 'mask': 'centre pixel free in {valid, nodata, invalid}, others valid'})


def cbca_inputs(H=3, W=3, subpix=1, cap=60, block=()):
    """CrossBasedCostAggregation.computes_cross_supports (masking, 3x3 median prefilter, NaN -> inf) on symbolic images and masks: the
    caller's image datasets keep their samples and masks (the kernel computing the arms is a stub: its result is not the subject)"""
    import xarray as xr
    from vf import symnp as S, instr
    from vf.explore import EX, explore
    from vf.hutil import Collector
    from vf.harness import mc
    from pandora import aggregation
    import pandora.aggregation.cbca as CB
    mc.install_stubs(S)
    col = Collector(cap_s=cap)
    info = {}
    S.MODE['exact'] = True
    CB.cross_support = lambda image, la, it: S.SymArray(np.zeros(tuple(image.shape) + (4,), np.int16), 'i2')

    def h():
        shapes = {}
        L, li, lmk = mc.make_image(xr, S, EX, 'l', H, W, mask='sym', shapes=shapes, vmax=50)
        R, ri, rmk = mc.make_image(xr, S, EX, 'r', H, W, mask='sym', shapes=shapes, vmax=50)
        col.shapes = shapes
        li0, ri0, lm0, rm0 = li.copy(), ri.copy(), lmk.copy(), rmk.copy()
        cv = xr.Dataset({"cost_volume": (["row", "col", "disp"], np.zeros((H, W, 1), np.float32))}, coords={"row": np.arange(H), "col": np.arange(W), "disp": [0.0]})
        cv.attrs = {"offset_row_col": 0, "subpixel": subpix, "cmax": 10, "type_measure": "min", "window_size": 1}
        ag = aggregation.AbstractAggregation(**{"aggregation_method": "cbca", "cbca_intensity": 5.0, "cbca_distance": 2})
        ex = {'cbca_inputs': True, 'H': H, 'W': W, 'subpix': subpix}
        try:
            ag.computes_cross_supports(L, R, cv)
        except S.Unsupported:
            raise
        except Exception as e:      # noqa
            col.path_exception(e, label='p%d' % len(EX.trace), extra=ex); return
        props = [("caller-left-image-untouched", z3.And(*[S.term_eq(a, b, 'x4') for a, b in zip(L["im"].data._a.flat, li0._a.flat)])),
                 ("caller-right-image-untouched", z3.And(*[S.term_eq(a, b, 'x4') for a, b in zip(R["im"].data._a.flat, ri0._a.flat)])),
                 ("caller-masks-untouched", z3.And(*[S.term_eq(a, b, 'i2') for a, b in list(zip(L["msk"].data._a.flat, lm0._a.flat)) + list(zip(R["msk"].data._a.flat, rm0._a.flat))]))]
        col.check_path(props, label='p%d' % len(EX.trace), extra=ex,
                       witnesses=[("a-right-pixel-is-masked", z3.Or(*[e_.t != 0 for e_ in rm0._a.flat]))])
        info['fn'] = instr.fn_hash(CB.CrossBasedCostAggregation.computes_cross_supports)
    res, stats = explore(h, max_paths=64)
    return col.result(stats, functions=info.get('fn', {}), bounds={'image': [H, W], 'masks': 'symbolic 4-valued, both images', 'subpix': subpix},
                      stubs=['cbca.cross_support = zeros (the arms are C11\'s subject)', 'scipy zoom / binary_dilation models of vf.harness.mc'])


def replay(cex):
    x = cex['extra']; inp = cex['inputs']
    if x.get('cbca_inputs'):
        import xarray as xr
        from pandora import aggregation
        H, W = x['H'], x['W']

        def mk(n):
            d = xr.Dataset({"im": (["row", "col"], np.array(inp[n], np.float32).reshape(H, W)), "msk": (["row", "col"], np.array(inp[n + 'msk'], np.int16).reshape(H, W))},
                           coords={"row": np.arange(H), "col": np.arange(W)})
            d.attrs = {"valid_pixels": 0, "no_data_mask": 1, "crs": None, "transform": None, "no_data_img": -9999}
            return d
        L, R = mk('l'), mk('r')
        L0, R0 = L.copy(deep=True), R.copy(deep=True)
        cv = xr.Dataset({"cost_volume": (["row", "col", "disp"], np.zeros((H, W, 1), np.float32))}, coords={"row": np.arange(H), "col": np.arange(W), "disp": [0.0]})
        cv.attrs = {"offset_row_col": 0, "subpixel": x['subpix'], "cmax": 10, "type_measure": "min", "window_size": 1}
        try:
            aggregation.AbstractAggregation(**{"aggregation_method": "cbca", "cbca_intensity": 5.0, "cbca_distance": 2}).computes_cross_supports(L, R, cv)
        except BaseException as e:      # noqa
            return {'violates': True, 'detail': 'computes_cross_supports raised %r' % (e,)}
        bad = []
        for nm, a, b in (('left', L, L0), ('right', R, R0)):
            if not np.array_equal(a["im"].data, b["im"].data, equal_nan=True) or np.isnan(a["im"].data).any():
                bad.append('computes_cross_supports modified the caller %s image: %s -> %s (mask %s)' % (nm, b["im"].data.tolist(), a["im"].data.tolist(), b["msk"].data.tolist()))
            if not np.array_equal(a["msk"].data, b["msk"].data):
                bad.append('caller %s mask modified' % nm)
        return {'violates': bool(bad), 'detail': '; '.join(bad)[:600]}
    if x.get('inputs'):
        import xarray as xr
        import pandora.img_tools as IT
        bands, R, C = x['bands'], x['R'], x['C']
        shp = (R, C) if not bands else (bands, R, C)
        im = np.array(inp['im'], np.float32).reshape(shp); mk = np.array(inp['msk'], np.int16).reshape(R, C)
        dims = ["row", "col"] if not bands else ["band_im", "row", "col"]
        coords = {"row": np.arange(R), "col": np.arange(C)}
        if bands:
            coords["band_im"] = ["b%d" % i for i in range(bands)]
        ds = xr.Dataset({"im": (dims, im.copy()), "msk": (["row", "col"], mk.copy())}, coords=coords)
        ds.attrs = {"valid_pixels": 0, "no_data_mask": 1, "crs": None, "transform": None, "no_data_img": -9999}
        try:
            IT.fill_nodata_image(ds)
        except BaseException as e:      # noqa
            return {'violates': True, 'detail': 'fill_nodata_image raised %r' % (e,)}
        bad = []
        if not np.array_equal(ds["im"].data, im):
            bad.append('fill_nodata_image modified the caller image: %s -> %s' % (im.tolist(), ds["im"].data.tolist()))
        if not np.array_equal(ds["msk"].data, mk):
            bad.append('fill_nodata_image modified the caller mask: %s -> %s' % (mk.tolist(), ds["msk"].data.tolist()))
        return {'violates': bool(bad), 'detail': '; '.join(bad)[:500]}
    # schedule harness: the real, uninstrumented source (a) interpreted with the prange loops forwards / backwards,
    # (b) compiled by numba with 1, 2 and 4 threads and with parallelisation off
    import subprocess, sys, json, os, tempfile
    f = tempfile.NamedTemporaryFile('w', suffix='.json', delete=False, dir='/var/tmp'); json.dump(cex, f); f.close()
    outs = []
    runs = [('interp-forward', {'NUMBA_DISABLE_JIT': '1', 'C18_REV': '0'}), ('interp-backward', {'NUMBA_DISABLE_JIT': '1', 'C18_REV': '1'})]
    if x['order'] in ('refinement', 'approximate_refinement'):
        runs += [('jit-1-thread', {'NUMBA_NUM_THREADS': '1'}), ('jit-2-threads', {'NUMBA_NUM_THREADS': '2'}), ('jit-4-threads', {'NUMBA_NUM_THREADS': '4'}),
                 ('jit-parallel-off', {'PANDORA_NUMBA_PARALLEL': 'False'})]
    elif x['order'] != 'graph':
        # compiled kernels on the model cost volume tiled to 96 x 64 pixels (a race needs several rows per thread to show): one thread as the
        # reference, then several runs with 4 and 8 threads
        runs = [('jit-tiled-1-thread', {'NUMBA_NUM_THREADS': '1', 'C18_TILE': '1'})] + \
               [('jit-tiled-%d-threads-run-%d' % (nt, i), {'NUMBA_NUM_THREADS': str(nt), 'C18_TILE': '1'}) for nt in (4, 8) for i in range(3)] + runs
    for name, e in runs:
        env = dict(os.environ, VF_REPO=os.environ.get('VF_REPO', '/repo'), PYTHONPATH='/verif')
        env.pop('NUMBA_DISABLE_JIT', None)
        env.update(e)
        p = subprocess.run([sys.executable, '-c', 'from vf.harness import c18; c18._real_main(%r)' % f.name], env=env, capture_output=True, text=True, timeout=600)
        lines = [l for l in p.stdout.strip().splitlines() if l.startswith('OUT ')]
        outs.append((name, lines[-1][4:] if lines else 'ERR ' + p.stderr[-300:]))
    os.unlink(f.name)
    groups = {}
    for n_, o_ in outs:
        groups.setdefault('tiled' if 'tiled' in n_ else 'model', []).append((n_, o_))
    distinct = set()
    for g_, lst in groups.items():
        if len(set(o for _, o in lst)) > 1:
            distinct = set(o for _, o in lst); outs = lst
            break
    if len(distinct) > 1:
        ref = outs[0][1]
        return {'violates': True, 'detail': 'the real kernel gives different results under different schedules: %s differ from interp-forward; %s' %
                ([n for n, o in outs if o != ref], [(n, o[:160]) for n, o in outs if n in ('interp-forward', 'interp-backward')])}
    return {'violates': False, 'detail': 'identical for all schedules tried: %s' % [n for n, _ in outs]}


def _real_main(path):
    """subprocess body of replay(): one schedule of the real kernel on the model inputs"""
    import json, os, warnings
    warnings.filterwarnings('ignore')
    from vf import instr_plain
    instr_plain.install()
    import pandora.refinement.refinement as RF, pandora.cost_volume_confidence.ambiguity as AM, pandora.cost_volume_confidence.risk as RK
    import pandora.cost_volume_confidence.interval_bounds as IB, pandora.interval_tools as IT
    if os.environ.get('NUMBA_DISABLE_JIT') == '1':
        ORDER['rev'] = os.environ.get('C18_REV') == '1'
        _install_prange()
    cex = json.load(open(path)); e = cex['extra']; inp = cex['inputs']
    R, C, D = e['R'], e['C'], e['D']
    k = e['order']
    if k in ('refinement', 'approximate_refinement'):
        cv = np.array(inp['cv'], np.float32).reshape(R, C, D); m = np.array(inp['m'], np.uint16).reshape(R, C); d = np.array(e['disp'], np.float32)
        r_ = RF.AbstractRefinement(**{"refinement_method": e['method']})
        fn = r_.loop_refinement if k == 'refinement' else r_.loop_approximate_refinement
        out = fn(cv, d, m, -1, -1 + D - 1, 1, e['measure'], r_.refinement_method)
    elif k == 'graph':
        i0 = np.array(inp['inf'], np.float32).reshape(R, C); s0 = np.array(inp['sup'], np.float32).reshape(R, C); a0 = np.array(inp['amb'], np.float32).reshape(R, C)
        out = IT.interval_regularization(i0, s0, a0, 0.6, 3, 1, 1.0)
    else:
        cv = np.array(inp['cv'], np.float32).reshape(R, C, D)
        cv[0, 0, :] = [0.0] + [float(2 + (i % 3)) for i in range(D - 1)]; cv[R - 1, C - 1, :] = [float(5 - (i % 2)) for i in range(D - 1)] + [8.0]
        if os.environ.get('C18_TILE') == '1':
            rngt = np.random.RandomState(0)
            cv = np.tile(cv, (96 // R + 1, 64 // C + 1, 1))[:96, :64, :].copy()
            cv += (rngt.randint(0, 4, size=cv.shape) / 4.0).astype(np.float32) * ~np.isnan(cv)      # rows differ from one another
        if k == 'ambiguity':
            out = (AM.Ambiguity.compute_ambiguity(cv, 0.0, 0.5, 0.25),)
        elif k == 'sampled_ambiguity':
            out = AM.Ambiguity.compute_ambiguity_and_sampled_ambiguity(cv, 0.0, 0.5, 0.25)
        else:
            _, samp = AM.Ambiguity.compute_ambiguity_and_sampled_ambiguity(cv.copy(), 0.0, 0.5, 0.25)
            if k == 'risk':
                out = RK.Risk.compute_risk(cv, samp, 0.0, 0.5, 0.25)
            elif k == 'sampled_risk':
                out = RK.Risk.compute_risk_and_sampled_risk(cv, samp, 0.0, 0.5, 0.25)
            else:
                out = IB.IntervalBounds.compute_interval_bounds(cv, np.arange(-1, -1 + D).astype(np.float32), 0.75, -1.0 if e['measure'] == 'min' else 1.0)
    import hashlib
    flat = [[None if v != v else v for v in np.asarray(o).astype(float).ravel().tolist()] for o in out]
    print('OUT ' + (json.dumps(flat) if sum(len(f_) for f_ in flat) < 400 else 'sha1:' + hashlib.sha1(json.dumps(flat).encode()).hexdigest()))
