"""E3: sequencing properties (C01, C08-structural, C15-schedule).

(a) the live transition tables of PandoraMachine -> z3 transition relation; BMC language equivalence with the documented
    automaton with a recurrence-diameter unwinding assertion (complete for the table-level claim);
(b) the *real* PandoraMachine / pandora.run / check_conf / callbacks executed with the step classes of the registries
    replaced by stubs whose results are z3 terms built by uninterpreted functions (EUF) of their arguments; interval
    arithmetic of the callbacks stays symbolic (z3 Real); assertions over logs and result terms are decided by z3.
Runs in 'plain' workers (no numpy instrumentation needed).
"""
import itertools, time, copy
import z3

STEPS = ["matching_cost", "aggregation", "optimization", "semantic_segmentation", "cost_volume_confidence",
         "disparity", "filter", "refinement", "validation", "multiscale"]
STATES = ["begin", "cost_volume", "disp_map"]
DEAD = 3
METHOD_KEY = {"matching_cost": "matching_cost_method", "aggregation": "aggregation_method", "optimization": "optimization_method",
              "semantic_segmentation": "segmentation_method", "cost_volume_confidence": "confidence_method",
              "disparity": "disparity_method", "filter": "filter_method", "refinement": "refinement_method",
              "validation": "validation_method", "multiscale": "multiscale_method"}


# ------------------------------------------------------------------------------------------ documented automaton
def doc_table():
    doc = {(0, 0): 1}
    for s in (1, 2, 3, 4):
        doc[(1, s)] = 1
    doc[(1, 5)] = 2
    for s in (6, 7, 8, 9):
        doc[(2, s)] = 2
    return doc


def doc_accepts(word):
    q = 0; d = doc_table()
    for a in word:
        q = d.get((q, a), DEAD)
        if q == DEAD:
            return False
    return True


def live_tables():
    from pandora.state_machine import PandoraMachine

    def table(trans, prefix):
        t = {}
        for tr in trans:
            name = tr["trigger"]
            if not name.startswith(prefix):
                raise ValueError('unexpected trigger name %r' % name)
            name = name[len(prefix):]
            if name not in STEPS:
                raise ValueError('trigger %r is not one of the ten documented step kinds' % name)
            src = tr["source"] if isinstance(tr["source"], list) else [tr["source"]]
            for s in src:
                for st in (STATES if s == '*' else [s]):
                    t.setdefault((STATES.index(st), STEPS.index(name)), []).append(
                        (STATES.index(tr["dest"]) if tr["dest"] in STATES else DEAD, tr.get("conditions")))
        return t
    return table(PandoraMachine._transitions_check, "check_"), table(PandoraMachine._transitions_run, "")


def _step_expr(tab, q, a, first_only=True):
    r = z3.IntVal(DEAD)
    for (s, sym), dests in tab.items():
        dest = dests[0][0] if isinstance(dests, list) else dests
        r = z3.If(z3.And(q == s, a == sym), z3.IntVal(dest), r)
    return r


def bmc():
    """language equivalence check-table vs documented automaton, with unwinding assertion; check/run mirror"""
    chk, run = live_tables()
    doc = doc_table()
    t0 = time.time()
    nstates = len(STATES) + 1
    N = nstates * nstates + 1
    w = [z3.Int("w%d" % i) for i in range(N)]
    s = z3.Solver(); s.set('timeout', 120000)
    qi, qd = z3.IntVal(0), z3.IntVal(0)
    diffs = []; pairs = [(qi, qd)]
    for i in range(N):
        s.add(w[i] >= 0, w[i] < len(STEPS))
        qi, qd = _step_expr(chk, qi, w[i]), _step_expr(doc, qd, w[i])
        diffs.append((qi == DEAD) != (qd == DEAD))
        pairs.append((qi, qd))
    out = {'N': N, 'obligations': 0, 'discharged': 0, 'cex': [], 'inconclusive': [], 'queries': 0}

    def q(name, *assertions, expect='unsat'):
        s.push(); s.add(*assertions); r = str(s.check()); out['queries'] += 1
        m = s.model() if r == 'sat' else None
        s.pop()
        return r, m
    out['obligations'] += 1
    r, m = q('equiv', z3.Or(*diffs))
    if r == 'unsat':
        out['discharged'] += 1
    elif r == 'sat':
        word = [m.eval(x, True).as_long() for x in w]
        # shortest distinguishing prefix
        for k in range(1, N + 1):
            if _accept_tab(chk, word[:k]) != doc_accepts(word[:k]):
                word = word[:k]; break
        out['cex'].append({'name': 'language-equivalence', 'word': [STEPS[i] for i in word]})
    else:
        out['inconclusive'].append('equivalence query: unknown')
    # unwinding assertion: no simple path of N+1 product states => N is a completeness threshold
    out['obligations'] += 1
    enc = [p[0] * nstates + p[1] for p in pairs]
    r, m = q('unwind', z3.Distinct(*enc))
    if r == 'unsat':
        out['discharged'] += 1
    else:
        out['inconclusive'].append('unwinding assertion %s: the bound %d is not a completeness threshold for the current tables' % (r, N))
    # vacuity: an accepted word of length 5 exists
    r, m = q('witness', pairs[5][0] != DEAD)
    out['witness'] = {'accepted-word-of-length-5': r}
    if m is not None:
        out['witness_word'] = [STEPS[m.eval(x, True).as_long()] for x in w[:5]]
    # run table mirrors check table (trigger/source/dest) except the documented multiscale difference
    out['obligations'] += 1
    diff = {}
    for k in set(chk) | set(run):
        c = [d for d, _ in chk.get(k, [])]; rr = [d for d, _ in run.get(k, [])]
        if c != rr:
            diff[(STATES[k[0]], STEPS[k[1]])] = (c, rr)
    expected = {("disp_map", "multiscale"): ([2], [0])}
    if diff == expected and run[(2, 9)][0][1] == "is_not_last_scale":
        out['discharged'] += 1
    else:
        out['cex'].append({'name': 'check-table-mirrors-run-table', 'diff': {str(k): v for k, v in diff.items()}})
    # determinism: one transition per (state, trigger)
    out['obligations'] += 1
    multi = {str(k): v for k, v in list(chk.items()) + list(run.items()) if len(v) != 1}
    if not multi:
        out['discharged'] += 1
    else:
        out['cex'].append({'name': 'one-transition-per-state-and-trigger', 'multi': multi})
    # product states reachable (evidence)
    reach = set(); frontier = [(0, 0)]; ntrans = 0
    while frontier:
        p = frontier.pop()
        if p in reach:
            continue
        reach.add(p)
        for a in range(len(STEPS)):
            n = (chk.get((p[0], a), [(DEAD, None)])[0][0] if p[0] != DEAD else DEAD, doc.get((p[1], a), DEAD) if p[1] != DEAD else DEAD)
            ntrans += 1
            frontier.append(n)
    out['states'] = len(reach); out['transitions'] = ntrans
    out['solver_s'] = round(time.time() - t0, 3)
    return out


def _accept_tab(tab, word):
    q = 0
    for a in word:
        d = tab.get((q, a))
        if not d:
            return False
        q = d[0][0]
    return True


# ------------------------------------------------------------------------------------------ EUF stubs
DS = z3.DeclareSort('DS')
_UF = {}


def uf(name, *args, ret=None):
    sorts = [a.sort() for a in args]
    key = (name, tuple(str(s) for s in sorts))
    if key not in _UF:
        _UF[key] = z3.Function(name + '_' + str(len(_UF)), *(sorts + [ret if ret is not None else DS]))
    return _UF[key](*args)


class Ctx:
    """per-run recording context"""
    def __init__(self):
        self.log = []
        self.scale_of = {}


CUR = Ctx()
EMPTY = z3.Const('empty', DS)


class Img:
    """stub image dataset: opaque z3 constant + the few attributes the machine callbacks touch"""
    def __init__(self, tag, side, disp=None, level=0, rows=64, cols=64, source=(0, 0), rev_bands=False):
        self.tag = tag; self.side = side; self.level = level
        self.rev_bands = rev_bands         # order of the band_disp coordinate: ("min", "max") or ("max", "min"); both are legal datasets
        self.term = z3.Const(tag, DS)      # radiometry + masks
        self.seg = None                    # segmentation layer attached by a semantic_segmentation step
        self.sizes = {"row": rows, "col": cols}
        self.attrs = {"disparity_source": source if disp is not None else None}
        self.coords = {"band_im": type("B", (), {"data": [None]})()}
        self._disp = disp
        self.data_vars = {"im": None}
        if disp is not None:
            self.data_vars["disparity"] = None

    def __repr__(self):
        return self.tag

    def __getitem__(self, k):
        if k != "disparity":
            raise KeyError(k)
        d = self._disp

        class W:
            def __init__(s, t):
                s.data = t

            def __truediv__(s, k):
                return s.data / k

            def __floordiv__(s, k):         # z3 to_int is floor
                return z3.ToReal(z3.ToInt(_r(s.data) / k))

            def __mul__(s, k):
                return s.data * k
            __rmul__ = __mul__

        rev = self.rev_bands

        class D:
            """the disparity variable: two bands; arithmetic on the whole variable scales both ends (as xarray does)"""
            def __init__(s, lo, hi):
                s._lo, s._hi = lo, hi
                # positional view of the variable (what `.data` of the DataArray gives): bands in coordinate order
                s.data = (hi, lo) if rev else (lo, hi)

            def sel(s, band_disp):
                return W(s._lo if band_disp == "min" else s._hi)

            def __truediv__(s, k):
                return D(_r(s._lo) / k, _r(s._hi) / k)

            def __floordiv__(s, k):
                return D(z3.ToReal(z3.ToInt(_r(s._lo) / k)), z3.ToReal(z3.ToInt(_r(s._hi) / k)))

            def __mul__(s, k):
                return D(_r(s._lo) * k, _r(s._hi) * k)
            __rmul__ = __mul__
        return D(d[0], d[1])


class CV:
    def __init__(self, side, cv, conf=None):
        self.side = side; self.cv = cv; self.conf = conf if conf is not None else EMPTY


class Disp:
    def __init__(self, side, disp, mask, conf, attrs=None):
        self.side = side; self.disp = disp; self.mask = mask; self.conf = conf
        # the real datasets carry the attributes the steps document (filter, refinement, validation, ...): code that consults them runs
        self.attrs = dict(attrs or {})

    def terms(self):
        return [self.disp, self.mask, self.conf]


def _sid(cfg):
    """identity of a step instance inside the product terms: its position id AND a fingerprint of every other configuration entry the
    instance was built with (so that an object left over from another pipeline, or a configuration entry that changed between two
    runs, shows in the products)"""
    import zlib
    rest = sorted((str(k), repr(v)) for k, v in cfg.items() if k != "sid")
    return z3.IntVal(int(cfg.get("sid", 0)) * 1000003 + zlib.crc32(repr(rest).encode()) % 1000003)


def _log(kind, cfg, side, **kw):
    CUR.log.append(dict(step=kind, sid=int(cfg.get("sid", 0)), side=side, **kw))


def _r(x):
    """interval end -> z3 Real term"""
    if hasattr(x, 'data') and not z3.is_expr(x):       # a selected band of the stub disparity variable
        x = x.data
    if isinstance(x, (int, float)):
        return z3.RealVal(x)
    if z3.is_int(x):
        return z3.ToReal(x)
    return x


def make_stubs():
    from pandora import matching_cost, disparity, filter as pfilter, refinement, validation, aggregation, \
        cost_volume_confidence, multiscale, optimization, semantic_segmentation
    from pandora.margins import Margins
    import pandora.state_machine as SM
    import pandora.check_configuration as CC

    class MC(matching_cost.AbstractMatchingCost):
        def __init__(self, **cfg):
            self.cfg = dict(cfg); self.cfg.setdefault("band", None); self.cfg.setdefault("step", 1)
            self.cfg.setdefault("window_size", 5)
            self._margins = Margins(2, 2, 2, 2)

        margins = property(lambda s: s._margins)

        def desc(self):
            pass

        def allocate_cost_volume(self, img, grids, cfg=None):
            _log("allocate", self.cfg, img.side, img=img.tag, level=img.level, dmin=_r(grids[0]), dmax=_r(grids[1]))
            return CV(img.side, uf("alloc", img.term, _r(grids[0]), _r(grids[1])))

        def compute_cost_volume(self, l, r, cv):
            _log("matching_cost", self.cfg, l.side, img=l.tag, other=r.tag, level=l.level)
            return CV(cv.side, uf("mc", _sid(self.cfg), l.term, r.term, cv.cv), cv.conf)

        def cv_masked(self, l, r, cv, dmin, dmax):
            _log("cv_masked", self.cfg, l.side, img=l.tag)
            cv.cv = uf("cvm", _sid(self.cfg), l.term, r.term, cv.cv, _r(dmin), _r(dmax))

    class AGG(aggregation.AbstractAggregation):
        def __init__(self, **cfg):
            self.cfg = dict(cfg); self._margins = Margins(0, 0, 0, 0)

        margins = property(lambda s: s._margins)

        def desc(self):
            pass

        def cost_volume_aggregation(self, l, r, cv, **kw):
            _log("aggregation", self.cfg, l.side, img=l.tag, cvside=cv.side)
            cv.cv = uf("agg", _sid(self.cfg), l.term, r.term, cv.cv)

    class OPT(optimization.AbstractOptimization):
        def __init__(self, img, **cfg):
            self.cfg = dict(cfg); self._margins = Margins(40, 40, 40, 40)

        margins = property(lambda s: s._margins)

        def desc(self):
            pass

        def optimize_cv(self, cv, l, r):
            _log("optimization", self.cfg, l.side, img=l.tag, cvside=cv.side)
            return CV(cv.side, uf("opt", _sid(self.cfg), l.term, l.seg if l.seg is not None else EMPTY, r.term, cv.cv), cv.conf)

    class SEG(semantic_segmentation.AbstractSemanticSegmentation):
        def __init__(self, img, **cfg):
            self.cfg = dict(cfg)

        def desc(self):
            pass

        def compute_semantic_segmentation(self, cv, l, r):
            _log("semantic_segmentation", self.cfg, l.side, img=l.tag, cvside=cv.side)
            n = Img(l.tag, l.side, l._disp, l.level, l.sizes["row"], l.sizes["col"])
            # contract: the step returns the same image (radiometry, masks untouched) with a segmentation layer attached;
            # only optimization reads that layer (of its first image argument)
            n.term = l.term
            n.seg = uf("seg", _sid(self.cfg), l.term, r.term, cv.cv)
            return n

    class CONF(cost_volume_confidence.AbstractCostVolumeConfidence):
        def __init__(self, **cfg):
            self.cfg = dict(cfg)

        def desc(self):
            pass

        def confidence_prediction(self, disp, l, r, cv):
            _log("cost_volume_confidence", self.cfg, l.side, img=l.tag, cvside=cv.side, indicator=self.cfg.get("indicator"))
            cv.conf = uf("conf", _sid(self.cfg), l.term, r.term, cv.cv, cv.conf)
            return disp, cv

    class DISP(disparity.AbstractDisparity):
        def __init__(self, **cfg):
            self.cfg = dict(cfg); self._margins = Margins(0, 0, 0, 0)

        margins = property(lambda s: s._margins)

        def desc(self):
            pass

        def to_disp(self, cv, l=None, r=None):
            _log("disparity", self.cfg, l.side, img=l.tag, cvside=cv.side)
            return Disp(cv.side, uf("wta", _sid(self.cfg), cv.cv), uf("wtam", _sid(self.cfg), cv.cv), cv.conf)

    class FILT(pfilter.AbstractFilter):
        def __init__(self, *a, cfg=None, image_shape=None, step=1, **kw):
            self.cfg = dict(cfg); self._margins = Margins(3 * step, 3 * step, 3 * step, 3 * step)

        margins = property(lambda s: s._margins)

        def desc(self):
            pass

        def filter_disparity(self, disp, img_left=None, img_right=None, cv=None):
            _log("filter", self.cfg, disp.side)
            disp.disp = uf("filt", _sid(self.cfg), disp.disp, disp.mask)

    class REF(refinement.AbstractRefinement):
        def __init__(self, **cfg):
            self.cfg = dict(cfg); self._margins = Margins(0, 0, 0, 0)

        margins = property(lambda s: s._margins)

        def desc(self):
            pass

        def subpixel_refinement(self, cv, disp):
            _log("refinement", self.cfg, disp.side, cvside=cv.side)
            d, m = disp.disp, disp.mask
            disp.disp = uf("ref", _sid(self.cfg), cv.cv, d, m)
            disp.mask = uf("refm", _sid(self.cfg), cv.cv, d, m)

    class VAL(validation.AbstractValidation):
        """contract (established on the real code by C07): the result keeps the first map's disparities; its flags and
        confidence depend on the first map (disparity, flags, confidence) and on the second map's *disparities* only"""
        def __init__(self, **cfg):
            self.cfg = dict(cfg)

        def desc(self):
            pass

        def disparity_checking(self, a, b, img_left=None, img_right=None, cv=None):
            _log("validation", self.cfg, a.side, other=b.side if isinstance(b, Disp) else None)
            return Disp(a.side, a.disp, uf("xcm", _sid(self.cfg), a.disp, a.mask, b.disp), uf("xcc", _sid(self.cfg), a.conf, a.disp, b.disp),
                        attrs=dict(a.attrs, validation="cross_checking_accurate"))

    class INTERP(validation.AbstractInterpolation):
        def __init__(self, **cfg):
            self.cfg = dict(cfg)

        def desc(self):
            pass

        def interpolated_disparity(self, disp, img_left=None, img_right=None, cv=None):
            _log("interpolation", self.cfg, disp.side)
            d, m = disp.disp, disp.mask
            disp.disp = uf("itp", _sid(self.cfg), d, m); disp.mask = uf("itpm", _sid(self.cfg), d, m)

    class MS(multiscale.AbstractMultiscale):
        def __init__(self, l, r, **cfg):
            self.cfg = dict(cfg); self.cfg.setdefault("num_scales", 2); self.cfg.setdefault("scale_factor", 2)

        def desc(self):
            pass

        def disparity_range(self, disp, dmin, dmax):
            a = (_sid(self.cfg), disp.disp, disp.mask, _r(dmin), _r(dmax))
            lo, hi = uf("drmin", *a, ret=z3.RealSort()), uf("drmax", *a, ret=z3.RealSort())
            _log("multiscale", self.cfg, disp.side, dmin=_r(dmin), dmax=_r(dmax), disp=disp.disp, out=(lo, hi))
            return lo, hi

    matching_cost.AbstractMatchingCost.matching_cost_methods_avail["stub"] = MC
    aggregation.AbstractAggregation.aggreg_methods_avail["stub"] = AGG
    optimization.AbstractOptimization.optimization_methods_avail["stub"] = OPT
    semantic_segmentation.AbstractSemanticSegmentation.segmentation_methods_avail["stub"] = SEG
    cost_volume_confidence.AbstractCostVolumeConfidence.confidence_methods_avail["stub"] = CONF
    disparity.AbstractDisparity.disparity_methods_avail["stub"] = DISP
    pfilter.AbstractFilter.filter_methods_avail["stub"] = FILT
    refinement.AbstractRefinement.subpixel_methods_avail["stub"] = REF
    # the machine compares the validation method name with the literal "cross_checking_accurate"
    validation.AbstractValidation.validation_methods_avail["cross_checking_accurate"] = VAL
    validation.AbstractInterpolation.interpolation_methods_avail["stub"] = INTERP
    multiscale.AbstractMultiscale.multiscale_methods_avail["stub"] = MS

    def vm(l, r, cv):
        cv.cv = uf("vm", l.term, r.term, cv.cv)
        return cv
    SM.validity_mask = vm

    def pyr(left, right, num_scales, scale_factor):
        CUR.log.append(dict(step="prepare_pyramid", num_scales=num_scales, scale_factor=scale_factor))
        L = [left]; R = [right]
        for k in range(1, num_scales):
            L.append(Img("%s_lvl%d" % (left.tag, k), left.side, left._disp, k, left.sizes["row"] // scale_factor ** k, left.sizes["col"] // scale_factor ** k))
            R.append(Img("%s_lvl%d" % (right.tag, k), right.side, right._disp, k, right.sizes["row"] // scale_factor ** k, right.sizes["col"] // scale_factor ** k))
        return L[::-1], R[::-1]
    SM.prepare_pyramid = pyr
    return SM, CC


def make_cfg(word, suffix_style=0, filling=False, ms=(2, 2)):
    """pipeline dict for a word (list of step indices); repeated steps get '.N' style suffixes"""
    cfg = {}; seen = {}
    # styles 0-2: repeated steps get a suffix; 3: a suffix that itself contains a dot ("filter.post.1"); 4: every step is suffixed, the
    # first occurrence too ("validation.s0" without any plain "validation" key) -- all are the documented "stepname.xxx" convention
    sufs = [lambda n, k: "%s.%d" % (n, k), lambda n, k: "%s.xxx%d" % (n, k), lambda n, k: "%s.%s" % (n, "abcdefgh"[k]),
            lambda n, k: "%s.post.%d" % (n, k), lambda n, k: "%s.s%d" % (n, k), lambda n, k: "%s.s%d" % (n, k)][suffix_style % 6]
    # style 4: the first validation step is suffixed too ("validation.s0", no plain "validation" key); style 5: EVERY first occurrence is
    # suffixed ("matching_cost.s0", ...): the code looks some steps up by their literal name (known finding KF-C01-suffixed-first-occurrence)
    for pos, a in enumerate(word):
        name = STEPS[a]; k = seen.get(name, 0); seen[name] = k + 1
        plain_first = k == 0 and not (suffix_style % 6 == 5 or (suffix_style % 6 == 4 and name == "validation"))
        key = name if plain_first else sufs(name, k)
        c = {METHOD_KEY[name]: "stub", "sid": pos + 1}
        if name == "validation":
            c[METHOD_KEY[name]] = "cross_checking_accurate"
            if filling:
                c["interpolated_disparity"] = "stub"
        if name == "semantic_segmentation":
            c["RGB_bands"] = []
        if name == "multiscale":
            c["num_scales"], c["scale_factor"] = ms
        cfg[key] = c
    return {"pipeline": cfg}


def make_cfg_named(other, word):
    """pipeline for `other` whose step keys/ids coincide with those make_cfg(word) gives to the same step kinds"""
    ref = make_cfg(word)["pipeline"]
    byname = {}
    for k, v in ref.items():
        byname.setdefault(k.split(".")[0], []).append((k, v))
    cfg = make_cfg(other)["pipeline"]
    out = {}; used = {}
    for k, v in cfg.items():
        kind = k.split(".")[0]; i = used.get(kind, 0); used[kind] = i + 1
        if kind in byname and i < len(byname[kind]):
            kk, vv = byname[kind][i]
            out[kk] = copy.deepcopy(vv)
            out[kk]["history_marker"] = 1          # same key and id as in `word`, but a different parameter value
        else:
            v = dict(v); v["sid"] = 100 + len(out)
            out[k if k not in out else k + ".z"] = v
    return {"pipeline": out}


def history_case(ob, other, word, PandoraMachine, CC, pandora, a_, b_):
    """one machine object: check pipeline `other` (through check_pipeline_section), then check and run pipeline `word`"""
    global CUR
    try:
        L, R = Img("L", "L", (a_, b_)), Img("R", "R", None)
        m = PandoraMachine()
        # the 'other' pipeline uses the same step names/ids where it shares step kinds with `word`
        CC.check_pipeline_section(make_cfg_named(other, word), L, R, m)
        cfgb = make_cfg(word)
        got = CC.check_pipeline_section(copy.deepcopy(cfgb), L, R, m)
        ob(list(got["pipeline"]) == list(cfgb["pipeline"]), 'history-other-pipeline-checked-before-same-steps-same-order', word,
           'after checking %s on the same machine, checking %s returns %s' % ([STEPS[i] for i in other], list(cfgb["pipeline"]), list(got["pipeline"])))
        CUR = Ctx()
        l, r = pandora.run(m, L, R, got)
        nsc = 2 if 9 in word else 1
        act = _actual_log(CUR.log, nsc)
        ob(act == expected_log(cfgb, nsc), 'history-other-pipeline-checked-before-run-as-configured', word,
           lambda: 'after checking %s on the same machine, running %s executes %s' % ([STEPS[i] for i in other], list(cfgb["pipeline"]), act[:12]))
    except Exception as e:     # noqa
        ob(False, 'history-other-pipeline-checked-before-same-steps-same-order', word, 'raised %r' % (e,))


def history_run_case(ob, other, word, PandoraMachine, CC, pandora, a_, b_):
    """one machine object: check AND RUN pipeline `other`, then check and run pipeline `word`: same effects as on a fresh machine,
    and no product of the earlier run survives (right dataset empty when `word` has no validation step)"""
    global CUR
    import xarray as xr
    try:
        L, R = Img("L", "L", (a_, b_)), Img("R", "R", None)
        m = PandoraMachine()
        cfga = make_cfg_named(other, word)
        gota = CC.check_pipeline_section(copy.deepcopy(cfga), L, R, m)
        CUR = Ctx()
        pandora.run(m, L, R, gota)
        cfgb = make_cfg(word)
        got = CC.check_pipeline_section(copy.deepcopy(cfgb), L, R, m)
        CUR = Ctx()
        l, r = pandora.run(m, L, R, got)
        nsc = 2 if 9 in word else 1
        act = _actual_log(CUR.log, nsc)
        ob(list(got["pipeline"]) == list(cfgb["pipeline"]) and act == expected_log(cfgb, nsc), 'history-other-pipeline-run-before-run-as-configured', word,
           lambda: 'after running %s on the same machine, running %s executes %s' % ([STEPS[i] for i in other], list(cfgb["pipeline"]), act[:12]))
        if 8 not in word:
            ob(isinstance(r, xr.Dataset) and len(r.data_vars) == 0, 'history-other-pipeline-run-before-right-dataset-empty-without-validation', word,
               'after running %s on the same machine, running %s (no validation step) returns a right dataset with %s' % (
                   [STEPS[i] for i in other], list(cfgb["pipeline"]), repr(r)[:80]))
        # and the products are those of a fresh machine
        m2 = PandoraMachine()
        got2 = CC.check_pipeline_section(copy.deepcopy(cfgb), L, R, m2)
        CUR = Ctx()
        l2, r2 = pandora.run(m2, L, R, got2)
        if isinstance(l, Disp) and isinstance(l2, Disp):
            pairs = list(zip(l.terms(), l2.terms()))
            if isinstance(r, Disp) and isinstance(r2, Disp):
                pairs += list(zip(r.terms(), r2.terms()))
            v = valid_eq(pairs)
            ob(v == 'unsat' and isinstance(r, Disp) == isinstance(r2, Disp), 'history-other-pipeline-run-before-same-products-as-fresh-machine', word,
               'after running %s first, the products of %s differ from those of a fresh machine (%s)' % ([STEPS[i] for i in other], list(cfgb["pipeline"]), v))
    except Exception as e:     # noqa
        ob(False, 'history-other-pipeline-run-before-run-as-configured', word, 'raised %r' % (e,))


def expected_log(cfg, num_scales):
    """reference semantics of the statement: each configured step once per processed scale, in order, left then right"""
    keys = list(cfg["pipeline"])
    has_val = any(k.split(".")[0] == "validation" for k in keys)
    # the machine decides on the literal key "validation"
    sides = ["L", "R"] if has_val else ["L"]
    ms_pos = [i for i, k in enumerate(keys) if k.split(".")[0] == "multiscale"]
    out = []
    for scale in range(num_scales - 1, -1, -1):
        for i, k in enumerate(keys):
            kind = k.split(".")[0]; sid = cfg["pipeline"][k]["sid"]
            if kind == "multiscale":
                if scale == 0:
                    continue          # last scale: the multiscale step has nothing to do
                for s in sides:
                    out.append(("multiscale", sid, s, scale))
                break
            if kind == "validation":
                out.append(("validation", sid, "L", scale)); out.append(("validation", sid, "R", scale))
                if "interpolated_disparity" in cfg["pipeline"][k]:
                    out.append(("interpolation", sid, "L", scale)); out.append(("interpolation", sid, "R", scale))
                continue
            for s in sides:
                out.append((kind, sid, s, scale))
    return out


def _actual_log(log, num_scales):
    out = []; scale = num_scales - 1
    for e in log:
        if e["step"] in ("allocate", "cv_masked", "prepare_pyramid"):
            continue
        out.append((e["step"], e["sid"], e["side"], scale))
        if e["step"] == "multiscale" and e["side"] == ("R" if any(x["step"] == "multiscale" and x["side"] == "R" for x in log) else "L"):
            scale -= 1
    return out


def valid_eq(pairs, cap_ms=20000):
    """z3 validity of a conjunction of term equalities; returns 'unsat' when all are equal in EUF+LRA"""
    s = z3.Solver(); s.set('timeout', cap_ms)
    s.add(z3.Or(*[a != b for a, b in pairs]))
    return str(s.check())


def run_words(words, histories=True, mirror=True, ms_variants=((2, 2),), suffix_styles=(0,), fillings=(False,)):
    """execute the real machine with stubs on the given words (lists of step indices)"""
    import pandora
    from transitions import MachineError
    SM, CC = make_stubs()
    from pandora.state_machine import PandoraMachine
    import xarray as xr
    res = {'evaluations': 0, 'obligations': 0, 'discharged': 0, 'cex': [], 'inconclusive': [], 'queries': 0, 'samples': [],
           'traces_validated': 0, 'accepted': 0, 'rejected': 0}
    t0 = time.time()
    a_, b_ = z3.Real('a'), z3.Real('b')
    trig_names = set(t["trigger"] for t in PandoraMachine._transitions_check) | set(t["trigger"] for t in PandoraMachine._transitions_run)

    res['by_name'] = {}

    def ob(ok, name, word, detail=None):
        res['obligations'] += 1
        bn = res['by_name'].setdefault(name, [0, 0]); bn[0] += 1
        if ok:
            res['discharged'] += 1; bn[1] += 1
        elif len([c for c in res['cex'] if c['name'] == name]) < 3:
            res['cex'].append({'name': name, 'word': [STEPS[i] for i in word], 'detail': detail() if callable(detail) else detail,
                               'variant': res.get('_variant')})

    def clean(m):
        left = [e for e in m.events if e in trig_names]
        return m.state == "begin" and not left, 'state=%s leftover=%s' % (m.state, left)

    prev_acc = None
    for word in words:
        # ---- histories with *other* pipelines checked before on the same machine object (through check_pipeline_section)
        if histories and doc_accepts(word):
            others = []
            if prev_acc is not None and list(prev_acc) != list(word):
                others.append(prev_acc)
            for i in range(len(word) - 1):
                w2 = list(word); w2[i], w2[i + 1] = w2[i + 1], w2[i]
                if w2 != list(word) and doc_accepts(w2):
                    others.append(w2); break
            for other in others:
                res['evaluations'] += 1
                res['_variant'] = {'history': [STEPS[i] for i in other]}
                history_case(ob, other, word, PandoraMachine, CC, pandora, a_, b_)
            # histories in which another pipeline was RUN before on the same machine: the same word plus a validation step (so that
            # right products exist), and the previous accepted word
            ran = []
            if 8 not in word and doc_accepts(list(word) + [8]):
                ran.append(list(word) + [8])
            elif 8 in word:
                w3 = [i for i in word if i != 8]
                if doc_accepts(w3):
                    ran.append(w3)
            if others:
                ran.append(others[0])
            for other in ran[:2]:
                res['evaluations'] += 1
                res['_variant'] = {'history_run': [STEPS[i] for i in other]}
                history_run_case(ob, other, word, PandoraMachine, CC, pandora, a_, b_)
            prev_acc = list(word)
        for sty in suffix_styles:
            for fill in fillings:
                for ms in ms_variants:
                    if fill and 8 not in word:
                        continue
                    if ms != ms_variants[0] and 9 not in word:
                        continue
                    res['evaluations'] += 1
                    res['_variant'] = {'suffix_style': sty, 'filling': fill, 'ms': list(ms)}
                    cfg = make_cfg(word, sty, fill, ms)
                    L, R = Img("L", "L", (a_, b_), rev_bands=(len(word) % 2 == 1)), Img("R", "R", None)
                    m = PandoraMachine()
                    exp_acc = doc_accepts(word)
                    try:
                        m.check_conf(copy.deepcopy(cfg), L, R)
                        acc = True; err = None
                    except MachineError as e:
                        acc = False; err = e
                    except Exception as e:     # noqa
                        acc = None; err = e
                    res['traces_validated'] += 1
                    if acc is None:
                        ob(False, 'rejection-is-a-sequencing-error', word, 'check_conf raised %r instead of MachineError' % (err,))
                        continue
                    ob(acc == exp_acc, 'accepted-iff-documented-path', word,
                       'check_conf %s, documented automaton %s' % ('accepts' if acc else 'rejects', 'accepts' if exp_acc else 'rejects'))
                    if not acc:
                        res['rejected'] += 1
                        continue
                    res['accepted'] += 1
                    ok, d = clean(m); ob(ok, 'after-check-initial-state-no-leftover-transitions', word, d)
                    ob(list(m.pipeline_cfg["pipeline"])[-len(cfg["pipeline"]):] == list(cfg["pipeline"]) or
                       list(m.pipeline_cfg["pipeline"]) == list(cfg["pipeline"]), 'checked-pipeline-keeps-order', word,
                       str(list(m.pipeline_cfg["pipeline"])))
                    marg1 = m.margins.to_dict()
                    # history: second check on the same machine
                    if histories:
                        try:
                            m.check_conf(copy.deepcopy(cfg), L, R)
                            ok, d = clean(m)
                            ob(ok and m.margins.to_dict() == marg1, 'second-check-same-machine-identical', word, d)
                        except Exception as e:     # noqa
                            ob(False, 'second-check-same-machine-identical', word, repr(e))
                    # run
                    nsc = ms[0] if 9 in word else 1

                    def do_run(mach, LL, RR, c):
                        global CUR
                        CUR = Ctx()
                        l, r = pandora.run(mach, LL, RR, c)
                        return l, r, CUR.log
                    try:
                        c1 = copy.deepcopy(cfg)
                        l1, r1, log1 = do_run(m, L, R, c1)
                        import json as _json
                        try:
                            saved_json = _json.dumps(c1)        # what the command line writes after the run: the configuration as the run left it
                        except Exception:     # noqa
                            saved_json = None
                    except Exception as e:     # noqa
                        ob(False, 'accepted-pipeline-runs-without-error', word, repr(e))
                        continue
                    ob(True, 'accepted-pipeline-runs-without-error', word)
                    exp = expected_log(cfg, nsc)
                    act = _actual_log(log1, nsc)
                    ob(act == exp, 'each-step-once-per-scale-in-order-left-then-right', word,
                       lambda: 'expected %s\n got %s' % (exp[:12], act[:12]))
                    if len(res['samples']) < 4:
                        res['samples'].append({'pipeline': list(cfg["pipeline"]), 'log': [str(x) for x in act[:10]]})
                    ok, d = clean(m); ob(ok, 'after-run-initial-state-no-leftover-transitions', word, d)
                    has_val = 8 in word
                    if not has_val:
                        ob(isinstance(r1, xr.Dataset) and len(r1.data_vars) == 0, 'no-validation-right-dataset-empty', word, repr(r1)[:80])
                    # schedule / intervals with multiscale
                    if 9 in word:
                        n, sf = ms
                        mcs = [e for e in log1 if e["step"] == "matching_cost" and e["side"] == "L"]
                        ob([e["level"] for e in mcs] == list(range(n - 1, -1, -1)), 'matching-runs-once-per-scale-coarse-to-fine', word,
                           'levels %s' % [e["level"] for e in mcs])
                        al = [e for e in log1 if e["step"] == "allocate" and e["side"] == "L"]
                        # returned maps were computed on the original images (level 0)
                        last_mc = [e for e in log1 if e["step"] == "matching_cost"][-1] if mcs else None
                        ob(last_mc is not None and last_mc["level"] == 0, 'last-scale-is-full-resolution', word)
                    if histories and isinstance(l1, Disp):
                        # second run on the same machine: same log, same terms
                        try:
                            # the caller hands the SAME configuration object to the second run (whatever the first run wrote into it)
                            l2, r2, log2 = do_run(m, L, R, c1)
                            same_log = _actual_log(log2, nsc) == act
                            pairs = list(zip(l1.terms(), l2.terms()))
                            if has_val and isinstance(r1, Disp) and isinstance(r2, Disp):
                                pairs += list(zip(r1.terms(), r2.terms()))
                            res['queries'] += 1
                            v = valid_eq(pairs)
                            ob(same_log and v == 'unsat', 'second-run-same-machine-identical', word, 'log same=%s, terms %s' % (same_log, v))
                        except Exception as e:     # noqa
                            ob(False, 'second-run-same-machine-identical', word, repr(e))
                    # C19: the configuration saved after the run (through JSON, as cfg/config.json) replays on a fresh machine: accepted, same
                    # steps, same band names (the indicator each confidence step is built with), same product terms
                    if histories and isinstance(l1, Disp) and saved_json is not None:
                        try:
                            saved = _json.loads(saved_json)
                            m5 = PandoraMachine()
                            m5.check_conf(copy.deepcopy(saved), L, R)
                            l5, r5, log5 = do_run(m5, L, R, saved)
                            ind = lambda lg: [(e["sid"], e["side"], e.get("indicator")) for e in lg if e["step"] == "cost_volume_confidence"]
                            same_log = _actual_log(log5, nsc) == act and ind(log5) == ind(log1)
                            pairs = list(zip(l1.terms(), l5.terms()))
                            if has_val and isinstance(r1, Disp) and isinstance(r5, Disp):
                                pairs += list(zip(r1.terms(), r5.terms()))
                            res['queries'] += 1
                            v = valid_eq(pairs)
                            ob(same_log and v == 'unsat' and isinstance(r1, Disp) == isinstance(r5, Disp), 'saved-configuration-replays-to-the-same-products', word,
                               lambda: 'log same=%s, terms %s; confidence indicators first run %s, replay %s' % (same_log, v, ind(log1)[:4], ind(log5)[:4]))
                        except Exception as e:     # noqa
                            ob(False, 'saved-configuration-replays-to-the-same-products', word, 'replay of the saved configuration raised %r' % (e,))
                    if isinstance(l1, Disp):
                        _interval_obligations(res, ob, word, cfg, log1, l1, ms, a_, b_, has_val)
                    # mirrored problem (C08): exchange images, negate and swap the interval
                    if mirror and has_val and isinstance(l1, Disp) and isinstance(r1, Disp):
                        try:
                            m2 = PandoraMachine()
                            # image tags/terms are exchanged: the mirrored left image *is* the original right image
                            L2 = Img("R", "L", (-b_, -a_)); R2 = Img("L", "R", None)
                            m2.check_conf(copy.deepcopy(cfg), L2, R2)
                            lm, rm, logm = do_run(m2, L2, R2, copy.deepcopy(cfg))
                            res['queries'] += 1
                            v = valid_eq(list(zip(r1.terms(), lm.terms())) + list(zip(l1.terms(), rm.terms())))
                            if v == 'unknown':
                                res['inconclusive'].append('mirror query unknown for %s' % [STEPS[i] for i in word])
                                res['obligations'] += 1
                            else:
                                ob(v == 'unsat', 'right-products-equal-left-products-of-mirrored-run', word,
                                   lambda: 'right1=%s\nleft2=%s' % (str(r1.disp)[:300], str(lm.disp)[:300]))
                        except Exception as e:     # noqa
                            ob(False, 'right-products-equal-left-products-of-mirrored-run', word, 'mirrored run raised %r' % (e,))
                    # adding a trailing cross-checking step (no filling) changes nothing in the left disparity
                    if mirror and not has_val and word and doc_accepts(list(word) + [8]) and isinstance(l1, Disp):
                        try:
                            w2 = list(word) + [8]
                            cfg2 = make_cfg(w2, sty, False, ms)
                            m3 = PandoraMachine(); L3, R3 = Img("L", "L", (a_, b_)), Img("R", "R", None)
                            m3.check_conf(copy.deepcopy(cfg2), L3, R3)
                            l3, r3, log3 = do_run(m3, L3, R3, copy.deepcopy(cfg2))
                            res['queries'] += 1
                            v = valid_eq([(l1.disp, l3.disp)])
                            ob(v == 'unsat', 'adding-cross-checking-leaves-left-disparity-unchanged', word, lambda: str(l3.disp)[:200])
                        except Exception as e:     # noqa
                            ob(False, 'adding-cross-checking-leaves-left-disparity-unchanged', word, repr(e))
    res['solver_s'] = 0.0
    res['wall'] = round(time.time() - t0, 2)
    res.pop('_variant', None)
    return res


def _interval_obligations(res, ob, word, cfg, log, l1, ms, a_, b_, has_val):
    """the intervals handed to allocate_cost_volume: user interval / sf^(n-1) at the coarsest level, then the
    disparity_range outputs; right interval = negated swapped"""
    n, sf = (ms if 9 in word else (1, 1))
    alloc_terms = []
    # re-derive from the result term: not needed -- the allocate log does not carry terms; use the multiscale log entries
    msl = [e for e in log if e["step"] == "multiscale" and e["side"] == "L"]
    for k, e in enumerate(msl):
        # user interval handed to disparity_range at the k-th coarse level = user / sf^(n-1-k-1) ... = user*sf^(k+1)/sf^n
        want_min = a_ * (sf ** (k + 1)) / (sf ** n); want_max = b_ * (sf ** (k + 1)) / (sf ** n)
        res['queries'] += 1
        v = valid_eq([(e["dmin"], want_min), (e["dmax"], want_max)])
        ob(v == 'unsat', 'user-interval-at-each-scale', word, lambda k=k, e=e: 'level %d: got [%s, %s]' % (k, e["dmin"], e["dmax"]))
    for side, lo0, hi0 in (("L", a_, b_), ("R", -b_, -a_)):
        al = [e for e in log if e["step"] == "allocate" and e["side"] == side]
        msx = [e for e in log if e["step"] == "multiscale" and e["side"] == side]
        if not al:
            continue
        res['queries'] += 1
        v = valid_eq([(al[0]["dmin"], lo0 / (sf ** (n - 1)) if n > 1 else lo0), (al[0]["dmax"], hi0 / (sf ** (n - 1)) if n > 1 else hi0)])
        ob(v == 'unsat', 'coarsest-level-searches-user-interval-over-sf^(n-1)', word, lambda: '%s: got [%s, %s]' % (side, al[0]["dmin"], al[0]["dmax"]))
        for k in range(1, len(al)):
            if k - 1 < len(msx):
                res['queries'] += 1
                v = valid_eq([(al[k]["dmin"], msx[k - 1]["out"][0] * sf), (al[k]["dmax"], msx[k - 1]["out"][1] * sf)])
                ob(v == 'unsat', 'finer-level-interval-is-sf-times-disparity-range-of-coarser-map', word,
                   lambda k=k: '%s level %d: got [%s, %s]' % (side, k, al[k]["dmin"], al[k]["dmax"]))
    msr = [e for e in log if e["step"] == "multiscale" and e["side"] == "R"]
    for k, e in enumerate(msr):
        want_min = -b_ * (sf ** (k + 1)) / (sf ** n); want_max = -a_ * (sf ** (k + 1)) / (sf ** n)
        res['queries'] += 1
        v = valid_eq([(e["dmin"], want_min), (e["dmax"], want_max)])
        ob(v == 'unsat', 'right-user-interval-at-each-scale', word, lambda k=k, e=e: 'level %d: got [%s, %s]' % (k, e["dmin"], e["dmax"]))


# ------------------------------------------------------------------------------------------ word generation (solver-proposed)
def words_upto(maxlen, loop_max=2, include_rejected=True):
    """accepted words (per the live check table) up to maxlen with each step kind used at most loop_max times, enumerated
    by z3 (blocking clauses) + for each accepted prefix state one shortest illegal extension per symbol"""
    chk, run = live_tables()
    acc = []
    for n in range(1, maxlen + 1):
        w = [z3.Int("w%d" % i) for i in range(n)]
        s = z3.Solver()
        q = z3.IntVal(0)
        for i in range(n):
            s.add(w[i] >= 0, w[i] < len(STEPS))
            q = _step_expr(chk, q, w[i])
        s.add(q != DEAD)
        for a in range(len(STEPS)):
            s.add(z3.Sum([z3.If(x == a, 1, 0) for x in w]) <= loop_max)
        while str(s.check()) == 'sat':
            m = s.model()
            word = [m.eval(x, True).as_long() for x in w]
            acc.append(word)
            s.add(z3.Or(*[x != v for x, v in zip(w, word)]))
    rej = []
    if include_rejected:
        seen = set()
        for word in [[]] + acc:
            q = 0
            for a in word:
                q = chk[(q, a)][0][0]
            if (q, len(word) > 0) in seen:
                continue
            seen.add((q, len(word) > 0))
            for a in range(len(STEPS)):
                if (q, a) not in chk:
                    rej.append(list(word) + [a])
    return acc, rej


def lib_validate(maxlen):
    """every word up to maxlen through the real check_conf (stub classes): acceptance == documented automaton == table encoding"""
    from transitions import MachineError
    SM, CC = make_stubs()
    from pandora.state_machine import PandoraMachine
    chk, run = live_tables()
    n = 0; bad = []
    a_, b_ = z3.Real('a'), z3.Real('b')
    L, R = Img("L", "L", (a_, b_)), Img("R", "R", None)
    for ln in range(0, maxlen + 1):
        for word in itertools.product(range(len(STEPS)), repeat=ln):
            n += 1
            m = PandoraMachine()
            try:
                m.check_conf(make_cfg(word), L, R)
                acc = True
            except MachineError:
                acc = False
            enc = _accept_tab(chk, word)
            if acc != enc or acc != doc_accepts(word):
                if len(bad) < 5:
                    bad.append({'word': [STEPS[i] for i in word], 'library': acc, 'encoding': enc, 'documented': doc_accepts(word)})
            elif acc and (m.state != "begin"):
                bad.append({'word': [STEPS[i] for i in word], 'state': m.state})
    return {'words': n, 'disagreements': bad}
