"""C14: the real occlusion/mismatch filling kernels executed symbolically (masks and disparities symbolic, DSE forks on the
mask classes); oracle = reference scan written from the statement/documentation, executed in the same path exploration."""
import numpy as np, z3

INVALID = 0b01111000011
DIR8 = [[0, 1], [-1, 1], [-1, 0], [-1, -1], [0, -1], [1, -1], [1, 0], [1, 1]]                       # [row, col] steps
DIR16 = [[0.0, 1.0], [-0.5, 1.0], [-1.0, 1.0], [-1.0, 0.5], [-1.0, 0.0], [-1.0, -0.5], [-1.0, -1.0], [-0.5, -1.0],
         [0.0, -1.0], [0.5, -1.0], [1.0, -1.0], [1.0, -0.5], [1.0, 0.0], [1.0, 0.5], [1.0, 1.0], [0.5, 1.0]]


def ray(H, W, r, c, d, half):
    """pixels visited from (r, c) along direction d until the image edge (documented scan, no step limit)"""
    out = []; i = 1
    while True:
        if half:
            rr = r + int(d[0] * i); cc = c + int(d[1] * i)
        else:
            rr = r + d[0] * i; cc = c + d[1] * i
        if rr < 0 or rr >= H or cc < 0 or cc >= W:
            return out
        out.append((rr, cc)); i += 1


def _first_valid(path, isvalid):
    for (rr, cc) in path:
        if isvalid(rr, cc):
            return (rr, cc)
    return None


def reference(method, H, W, isvalid, isocc, ismis):
    """two-stage reference of the documented procedures.  Returns {pixel: ('keep',) | ('keep-as-occlusion',) |
    ('fill', newbit, expr)} with expr = ('px', rc) | ('median', [expr]) | ('seclow', [expr]).
    mc-cnn: occlusions first (first valid pixel to the left, else to the right), then mismatches (median of the first usable
    pixel in 16 directions, usable = valid or already filled occlusion).  sgm: mismatches first (a mismatch touching an
    occlusion becomes an occlusion; else median of the first valid pixel in 8 directions), then occlusions (second lowest
    magnitude among the first usable pixels in 8 directions, usable = valid or already filled mismatch)."""
    res = {}
    px = [(r, c) for r in range(H) for c in range(W)]
    if method == 'mc-cnn':
        filled = {}
        for (r, c) in px:
            if isocc(r, c):
                left = _first_valid([(r, cc) for cc in range(c - 1, -1, -1)], isvalid)
                right = _first_valid([(r, cc) for cc in range(c + 1, W)], isvalid)
                src = left or right
                if src:
                    filled[(r, c)] = ('px', src); res[(r, c)] = ('fill', 4, ('px', src))
                else:
                    res[(r, c)] = ('keep',)
        usable = lambda r, c: isvalid(r, c) or (r, c) in filled
        for (r, c) in px:
            if ismis(r, c) and not isocc(r, c):
                srcs = [_first_valid(ray(H, W, r, c, d, True), usable) for d in DIR16]
                srcs = [filled.get(s_, ('px', s_)) for s_ in srcs if s_]
                res[(r, c)] = ('fill', 5, ('median', srcs)) if srcs else ('keep',)
    else:
        filled = {}; asocc = set()
        for (r, c) in px:
            if ismis(r, c) and not isocc(r, c):
                if any(isocc(rr, cc) for rr in range(max(0, r - 1), min(H, r + 2)) for cc in range(max(0, c - 1), min(W, c + 2))):
                    asocc.add((r, c))
                else:
                    srcs = [_first_valid(ray(H, W, r, c, d, False), isvalid) for d in DIR8]
                    srcs = [('px', s_) for s_ in srcs if s_]
                    if srcs:
                        filled[(r, c)] = ('median', srcs); res[(r, c)] = ('fill', 5, ('median', srcs))
                    else:
                        res[(r, c)] = ('keep',)
        usable = lambda r, c: isvalid(r, c) or (r, c) in filled
        for (r, c) in px:
            if isocc(r, c) or (r, c) in asocc:
                srcs = [_first_valid(ray(H, W, r, c, d, False), usable) for d in DIR8]
                srcs = [filled.get(s_, ('px', s_)) for s_ in srcs if s_]
                if srcs:
                    res[(r, c)] = ('fill', 4, ('seclow', srcs))
                else:
                    res[(r, c)] = ('keep-as-occlusion',) if (r, c) in asocc else ('keep',)
    return res


def ev_sym(S, expr, d0):
    """symbolic value (engine scalar) of a reference expression + list of admissible tie values for seclow"""
    if expr[0] == 'px':
        return d0._a[expr[1]]
    vals = [ev_sym(S, e, d0) for e in expr[1]]
    if expr[0] == 'median':
        return S._median_of(vals, False)
    raise ValueError(expr[0])


def ev_np(expr, d0):
    if expr[0] == 'px':
        return np.float32(d0[expr[1]])
    vals = np.array([ev_np(e, d0) for e in expr[1]], np.float32)
    if expr[0] == 'median':
        return np.float32(np.median(vals))
    if len(vals) < 2:
        return vals[0]
    return vals[np.argsort(np.abs(vals), kind='stable')[1]]


def fill(method, H, W, cap=60, block=(), max_paths=20000, time_cap=None, prefix=(), offset=0):
    import xarray as xr
    from vf import symnp as S, instr
    from vf.explore import EX, explore
    from vf.hutil import Collector
    import pandora.validation.interpolated_disparity as ID
    import pandora.img_tools as IT
    col = Collector(cap_s=cap, block=list(block))
    info = {}

    def h():
        d = S.fresh_array('d', (H, W), 'x4', scale=4)
        m = S.fresh_array('m', (H, W), 'u2')
        col.shapes = {'d': ((H, W), 'x4'), 'm': ((H, W), 'u2')}
        for e in d._a.flat:
            EX.assume(z3.And(e.t.val >= -64, e.t.val <= 64))
        for e in m._a.flat:
            EX.assume(z3.ULT(e.t, z3.BitVecVal(4096, 16)))
            EX.assume((e.t & 768) != 768)                         # never both occlusion and mismatch (C07)
            EX.assume(z3.Or((e.t & 768) == 0, (e.t & 0b11000011) == 0))   # cross-checking only flags previously valid pixels
            # bits 4/5 may already be set: a second validation step re-examines pixels filled by the first one (they are valid again)
        d0 = d.copy(); m0 = m.copy()
        ds = xr.Dataset({"disparity_map": (["row", "col"], d), "validity_mask": (["row", "col"], m)}, coords={"row": np.arange(H), "col": np.arange(W)})
        ds.attrs = {"offset_row_col": offset}
        itp = ID.AbstractInterpolation(**{"interpolated_disparity": method})
        ex = {'method': method, 'H': H, 'W': W, 'offset': offset}
        try:
            itp.interpolated_disparity(ds)
        except S.Unsupported:
            raise
        except Exception as e:      # noqa
            col.path_exception(e, label='p%d' % len(EX.trace), extra=ex)
            return
        do = ds["disparity_map"].data; mo = ds["validity_mask"].data
        # ---- reference, executed on the same symbolic masks (its tests fork / reuse the decisions of the path)
        isvalid = lambda r, c: bool((m0._a[r, c] & INVALID) == 0)
        isocc = lambda r, c: bool((m0._a[r, c] & 256) != 0)
        ismis = lambda r, c: bool((m0._a[r, c] & 512) != 0)
        ref = reference(method, H, W, isvalid, isocc, ismis)
        valid_px = [(r, c) for r in range(H) for c in range(W) if isvalid(r, c)]
        props = []; kf = []
        for r in range(H):
            for c in range(W):
                o = S.xlift(do._a[r, c]); i = S.xlift(d0._a[r, c])
                mo_t = S.lift(mo._a[r, c], 'u2'); mi_t = m0._a[r, c].t
                if offset > 0 and (r < offset or r >= H - offset or c < offset or c >= W - offset):
                    props.append(("border-bit0-only[%d,%d]" % (r, c), mo_t == 1)); continue
                what = ref.get((r, c))
                same = z3.And(o.tag == i.tag, o.val == i.val)
                if what is None:
                    props.append(("unflagged-pixel-untouched[%d,%d]" % (r, c), z3.And(same, mo_t == mi_t)))
                elif what[0] == 'keep':
                    props.append(("no-valid-pixel-in-sight-stays-flagged[%d,%d]" % (r, c), z3.And(same, mo_t == mi_t)))
                elif what[0] == 'keep-as-occlusion':
                    props.append(("no-valid-pixel-in-sight-stays-flagged[%d,%d]" % (r, c), z3.And(same, (mo_t & INVALID) != 0,
                                                                                                 (mo_t & ~z3.BitVecVal(768, 16)) == (mi_t & ~z3.BitVecVal(768, 16)))))
                else:
                    _, newbit, expr = what
                    allv = [S.xlift(d0._a[s_]).val for s_ in valid_px]
                    flag_ok = z3.And((mo_t & 768) == 0, (mo_t & (1 << newbit)) != 0,
                                     (mo_t & ~z3.BitVecVal(768 | 48, 16)) == (mi_t & ~z3.BitVecVal(768 | 48, 16)),
                                     (mo_t & 48) == ((mi_t & 48) | (1 << newbit)))      # flags are independent bits: earlier 'filled' bits stay
                    props.append(("filled-flag-swap[%d,%d]" % (r, c), flag_ok))
                    props.append(("filled-finite-within-valid-range[%d,%d]" % (r, c), z3.And(o.tag == 0, z3.Or(*[o.val >= v for v in allv]), z3.Or(*[o.val <= v for v in allv]))))
                    if expr[0] == 'seclow':
                        vals = [ev_sym(S, e, d0) for e in expr[1]]
                        if len(vals) >= 2:
                            srt = _sort_abs(S, vals)
                            sec = S.xlift(S.sabs(srt[1])).val       # ties between equal magnitudes: either sign is 'the second lowest'
                            props.append(("filled-value[%d,%d]" % (r, c), z3.And(o.tag == 0, z3.Or(o.val == sec, o.val == -sec),
                                                                                 z3.Or(*[o.val == S.xlift(v).val for v in vals]))))
                        else:
                            props.append(("filled-value[%d,%d]" % (r, c), z3.And(o.tag == 0, o.val == S.xlift(vals[0]).val)))
                    else:
                        e = S.xlift(ev_sym(S, expr, d0))
                        props.append(("filled-value[%d,%d]" % (r, c), z3.And(o.tag == 0, o.val == e.val)))
        col.check_path(props, label='p%d' % len(EX.trace), extra=ex,
                       witnesses=[("a-flagged-pixel-is-filled", z3.BoolVal(any(v[0] == 'fill' for v in ref.values()))),
                                  ("a-flagged-pixel-has-nothing-in-sight", z3.BoolVal(any(v[0] != 'fill' for v in ref.values())))])
        info['fn'] = instr.fn_hash(ID.McCnnInterpolation.interpolate_occlusion_mc_cnn, ID.McCnnInterpolation.interpolate_mismatch_mc_cnn,
                                   ID.SgmInterpolation.interpolate_occlusion_sgm, ID.SgmInterpolation.interpolate_mismatch_sgm, IT.find_valid_neighbors)
    res, stats = explore(h, max_paths=max_paths, time_cap_s=time_cap, prefixes=[list(prefix)])
    return col.result(stats, functions=info.get('fn', {}),
                      bounds={'method': method, 'map': [H, W], 'offset': offset, 'disparities': 'multiples of 1/4, |d| <= 16 (exact domain)',
                              'masks': 'any uint16 < 4096, not both bits 8 and 9, flagged pixels carry no other invalid bit, bits 4/5 clear',
                              'prefix': ''.join('T' if b else 'F' for b in prefix)},
                      assumptions=['C14: masks as produced by cross-checking (C07 postcondition): never both bits 8 and 9, bits 8/9 only on pixels without other invalidity bits',
                                   'C14: exact value domain for disparities (multiples of 1/4)'])


def _sort_abs(S, vals):
    v = list(vals); n = len(v)
    for rnd in range(n):
        for i in range(rnd % 2, n - 1, 2):
            c = S.binop('lt', S.sabs(v[i + 1]), S.sabs(v[i]))
            v[i], v[i + 1] = S.ite(c, v[i + 1], v[i]), S.ite(c, v[i], v[i + 1])
    return v


def replay(cex):
    import xarray as xr
    import pandora.validation.interpolated_disparity as ID
    x = cex['extra']; H, W = x['H'], x['W']
    d0 = np.array(cex['inputs']['d'], np.float32).reshape(H, W); m0 = np.array(cex['inputs']['m'], np.uint16).reshape(H, W)
    ds = xr.Dataset({"disparity_map": (["row", "col"], d0.copy()), "validity_mask": (["row", "col"], m0.copy())}, coords={"row": np.arange(H), "col": np.arange(W)})
    ds.attrs = {"offset_row_col": x.get('offset', 0)}
    itp = ID.AbstractInterpolation(**{"interpolated_disparity": x['method']})
    try:
        itp.interpolated_disparity(ds)
    except BaseException as e:      # noqa
        return {'violates': True, 'detail': 'interpolated_disparity raised %r' % (e,)}
    do = ds["disparity_map"].data; mo = ds["validity_mask"].data
    isvalid = lambda r, c: (m0[r, c] & INVALID) == 0
    ref = reference(x['method'], H, W, isvalid, lambda r, c: (m0[r, c] & 256) != 0, lambda r, c: (m0[r, c] & 512) != 0)
    allv = [d0[r, c] for r in range(H) for c in range(W) if isvalid(r, c)]
    bad = []; known = None; off = x.get('offset', 0)
    for r in range(H):
        for c in range(W):
            if off > 0 and (r < off or r >= H - off or c < off or c >= W - off):
                if mo[r, c] != 1:
                    bad.append('border (%d,%d) flags %d' % (r, c, mo[r, c]))
                continue
            w = ref.get((r, c))
            same = (do[r, c] == d0[r, c]) and mo[r, c] == m0[r, c]
            if w is None:
                if not same:
                    bad.append('unflagged pixel (%d,%d) changed: %r/%d -> %r/%d' % (r, c, float(d0[r, c]), m0[r, c], float(do[r, c]), mo[r, c]))
            elif w[0] == 'keep':
                if not same:
                    bad.append('pixel (%d,%d) has no valid pixel in sight but became %r with flags %d (was %r/%d)' % (r, c, float(do[r, c]), mo[r, c], float(d0[r, c]), m0[r, c]))
            elif w[0] == 'keep-as-occlusion':
                if do[r, c] != d0[r, c] or not (mo[r, c] & INVALID):
                    bad.append('pixel (%d,%d) has no valid pixel in sight but became %r with flags %d' % (r, c, float(do[r, c]), mo[r, c]))
            else:
                _, newbit, expr = w
                exp = ev_np(expr, d0)
                okflag = (int(mo[r, c]) & 768) == 0 and (int(mo[r, c]) & 48) == ((int(m0[r, c]) & 48) | (1 << newbit)) and (int(mo[r, c]) & ~(768 | 48)) == (int(m0[r, c]) & ~(768 | 48))
                if not okflag:
                    bad.append('pixel (%d,%d): flags %d -> %d, expected bit %d swap' % (r, c, m0[r, c], mo[r, c], newbit))
                if not np.isfinite(do[r, c]) or not (min(allv) <= do[r, c] <= max(allv)):
                    bad.append('pixel (%d,%d) filled with %r, valid disparities span [%r, %r]' % (r, c, float(do[r, c]), float(min(allv)), float(max(allv))))
                elif expr[0] != 'seclow' and do[r, c] != exp:
                    bad.append('pixel (%d,%d) filled with %r, documented procedure gives %r' % (r, c, float(do[r, c]), float(exp)))
                elif expr[0] == 'seclow' and abs(do[r, c]) != abs(exp):
                    bad.append('pixel (%d,%d) filled with %r, second lowest magnitude is %r' % (r, c, float(do[r, c]), float(exp)))
    return {'violates': bool(bad), 'known': known if (known and len(bad) == 1) else None,
            'detail': '; '.join(bad[:3]) + ' [disp=%s mask=%s %s]' % (d0.tolist(), m0.tolist(), x['method'])}
