"""Symbolic-harness side helpers (run inside 'sym' workers)."""
import time
import numpy as np, z3
from .explore import EX, explore, Unsupported, Infeasible
from . import symnp as S


class Collector:
    """accumulates per-path obligations and discharges them with hard-capped solver calls"""
    def __init__(self, cap_s=60, known=None, block=None, shapes=None):
        self.cap = cap_s
        self.known = known or {}          # id -> function() -> z3 predicate over the current path's inputs
        self.block = block or []          # ids of open known findings to block
        self.shapes = shapes or {}        # input name -> (shape, kind) for model extraction
        self.n_obl = 0; self.n_dis = 0; self.inconclusive = []; self.cex = []; self.queries = 0
        self.samples = []; self.nontrivial = 0; self.witness = {}

    def _model(self, out):
        arrs = S.model_arrays(out, self.shapes)
        res = {k: v.tolist() for k, v in arrs.items()}
        # python scalars registered by vf.symscalar (not in shapes)
        others = [n for n in out.get('m', {}) if n not in self.shapes]
        if others:
            from . import symscalar as SS
            res.update(SS.model_scalars(out, others))
        return res

    def check_path(self, props, label='', extra=None, group=True, witnesses=None, pins=None):
        """props: list of (name, z3 Bool) that must hold on this path (under EX.pc).  In-bounds/engine obligations of the
        path are added.  All are tried as one conjunction first and split only when not unsat."""
        props = list(props) + [(n, p) for (n, p) in EX.obligations]
        props = [(n, p if not isinstance(p, bool) else z3.BoolVal(p)) for n, p in props]
        # pins: optional list of constraints fixing every input to constants.  When a query comes back unknown/timeout the same query is
        # retried under each pin (a ground query the solver decides at once): `sat` yields a counterexample; the obligation is never
        # counted as discharged on that basis
        self._pins = list(pins or [])
        if not props:
            return
        self.nontrivial += 1
        self.n_obl += len(props)
        blockers = [z3.Not(self.known[k]()) for k in self.block if k in self.known]
        if len(self.samples) < 3:
            n, p = props[len(props) // 2]
            self.samples.append({'path': label, 'obligation': n, 'smt': z3.simplify(p).sexpr()[:400]})
        conj = z3.And(*[p for _, p in props]) if len(props) > 1 else props[0][1]
        # obligations that are literally `true` (concrete pixels checked by the harness itself, term identities that simplify away)
        # need no query
        remaining = []
        for n, p in props:
            if z3.is_true(p) or (p.num_args() < 50 and z3.is_true(z3.simplify(p))):
                self.n_dis += 1
            else:
                remaining.append((n, p))
        if not group:
            # every obligation in its own query (nonlinear arithmetic: a conjunction is much harder than its parts)
            for n, p in remaining:
                self.queries += 1
                r1, out1, dt1 = EX.solve([z3.Not(p)] + blockers, cap_s=self.cap)
                self._one(n, label, r1, out1, extra, formulas=[z3.Not(p)] + blockers)
            remaining = []
        self._t_path = 0.0          # solver time spent on timed-out conjunctions of this path (bounds the splitting)
        self._grouped(remaining, blockers, label, extra, depth=0)
        # known findings: confirm each open one separately (so that it is reported, and only it is blocked)
        for k in self.block:
            if k in self.known and not any(c.get('known') == k for c in self.cex):
                self.queries += 1
                rk, outk, dtk = EX.solve([z3.Not(conj), self.known[k]()], cap_s=self.cap)
                if rk == 'sat':
                    self.cex.append({'name': 'known:' + k, 'path': label, 'known': k, 'inputs': self._model(outk), 'extra': extra})
        for wn, wp in (witnesses or []):
            if self.witness.get(wn) == 'sat':
                continue
            self.queries += 1
            rw, _, _ = EX.solve([wp], cap_s=self.cap, want_model=False)
            rank = {'sat': 2, 'unsat': 0}
            if wn not in self.witness or rank.get(rw, 1) > rank.get(self.witness[wn], 1):
                self.witness[wn] = rw          # reachable on some path: sat beats undecided beats unsat

    def _grouped(self, remaining, blockers, label, extra, depth):
        """conjunction first; `sat`: record the counterexample and retry without the false obligations; timeout/unknown on a
        conjunction of several obligations: split it (a conjunction can be much harder than its parts), at most 3 levels"""
        for _round in range(6):
            if not remaining:
                return
            cj = z3.And(*[p for _, p in remaining]) if len(remaining) > 1 else remaining[0][1]
            self.queries += 1
            r, out, dt = EX.solve([z3.Not(cj)] + blockers, cap_s=self.cap, eval_named=remaining)
            if r == 'unsat':
                self.n_dis += len(remaining); return
            if r == 'sat':
                false = set(out.get('false') or [])
                if not false:
                    false = {remaining[0][0]}
                first = True
                for n in [n for n, _ in remaining if n in false]:
                    if first:
                        self.cex.append({'name': n, 'path': label, 'inputs': self._model(out), 'extra': extra,
                                         'also_false': sorted(false)[:6]})
                        first = False
                remaining = [(n, p) for n, p in remaining if n not in false]
                continue
            self._t_path += dt or 0
            if len(remaining) > 1 and depth < 3 and self._t_path < 5 * self.cap:
                k = max(1, (len(remaining) + 3) // 4)
                for i in range(0, len(remaining), k):
                    self._grouped(remaining[i:i + k], blockers, label, extra, depth + 1)
                return
            for n, p in remaining:
                if not self._try_pins(n, p, blockers, label, extra):
                    self.inconclusive.append('%s@%s: %s' % (n, label, (out or {}).get('why', 'unknown')))
            return
        for n, _ in remaining:
            self.inconclusive.append('%s@%s: not decided (too many failing obligations on this path)' % (n, label))

    def _pin_formulas(self, n, label, formulas, extra):
        for pin in getattr(self, '_pins', []):
            self.queries += 1
            r, out, dt = EX.solve(list(formulas) + [pin], cap_s=min(self.cap, 30))
            if r == 'sat':
                self.cex.append({'name': n, 'path': label, 'inputs': self._model(out), 'extra': extra, 'found_with': 'pinned inputs'})
                return True
        return False

    def _try_pins(self, n, p, blockers, label, extra):
        for pin in getattr(self, '_pins', []):
            self.queries += 1
            r, out, dt = EX.solve([z3.Not(p), pin] + blockers, cap_s=min(self.cap, 30))
            if r == 'sat':
                self.cex.append({'name': n, 'path': label, 'inputs': self._model(out), 'extra': extra, 'found_with': 'pinned inputs'})
                return True
        return False

    def _one(self, n, label, r, out, extra, formulas=None):
        if r == 'unsat':
            self.n_dis += 1
        elif r == 'sat':
            if EX.real_inputs and formulas is not None:
                # prefer a model whose real-valued inputs are float32-representable (multiples of 1/64)
                self.queries += 1
                r2, out2, _ = EX.solve(list(formulas) + [z3.IsInt(v * 64) for v in EX.real_inputs], cap_s=min(self.cap, 30))
                if r2 == 'sat':
                    out = out2
            self.cex.append({'name': n, 'path': label, 'inputs': self._model(out), 'extra': extra})
        elif formulas is not None and self._pin_formulas(n, label, formulas, extra):
            pass
        else:
            self.inconclusive.append('%s@%s: %s' % (n, label, (out or {}).get('why', 'unknown')))

    def path_exception(self, exc, label='', extra=None):
        """an exception escaped the code under test on this path: counterexample candidate if the path is feasible"""
        self.n_obl += 1; self.nontrivial += 1
        self.queries += 1
        blockers = [z3.Not(self.known[k]()) for k in self.block if k in self.known]
        r, out, dt = EX.solve(blockers, cap_s=self.cap)
        if r == 'unsat':
            self.n_dis += 1
        elif r == 'sat':
            self.cex.append({'name': 'no-exception(%s: %s)' % (type(exc).__name__, str(exc)[:80]), 'path': label,
                             'inputs': self._model(out), 'extra': extra})
        else:
            self.inconclusive.append('exception-path@%s: %s' % (label, (out or {}).get('why')))
        for k in self.block:
            if k in self.known:
                self.queries += 1
                rk, outk, _ = EX.solve([self.known[k]()], cap_s=self.cap)
                if rk == 'sat':
                    self.cex.append({'name': 'known:' + k, 'path': label, 'known': k, 'inputs': self._model(outk), 'extra': extra})

    def result(self, stats, **kw):
        d = {'paths': stats['paths'], 'nontrivial_paths': self.nontrivial, 'obligations': self.n_obl, 'discharged': self.n_dis,
             'inconclusive': self.inconclusive, 'cex': ([c for c in self.cex if not c.get('known')][:5] + [c for c in self.cex if c.get('known')][:2]), 'queries': self.queries + stats.get('feas_queries', 0),
             'solver_s': stats['solver_s'], 'truncated': stats.get('truncated', False), 'pending': stats.get('pending', 0),
             'samples': self.samples, 'witness': self.witness}
        d.update(kw)
        return d


def T(x):
    """z3 Bool of an engine boolean"""
    if isinstance(x, S.Sym):
        return x.t
    return z3.BoolVal(bool(x))
